#!/bin/bash
# Runs the repository's own suite (guard off) and compares with BASELINE.json stable_pass.
cd /repo && env -u PSEUDONETCDF_VERIF /venv/bin/python -m pytest -ra -q -p no:cacheprovider --timeout=900 --continue-on-collection-errors --junitxml=/tmp/_baseline.junit.xml >/tmp/_baseline.log 2>&1
/venv/bin/python - <<'PY'
import json, xml.etree.ElementTree as ET
b = json.load(open('/root/.vp/BASELINE.json'))
t = ET.parse('/tmp/_baseline.junit.xml')
passed = set(); failed = set()
for tc in t.iter('testcase'):
    name = tc.get('classname') + '::' + tc.get('name')
    if any(ch.tag in ('failure', 'error') for ch in tc):
        failed.add(name)
    elif any(ch.tag == 'skipped' for ch in tc):
        pass
    else:
        passed.add(name)
miss = [n for n in b['stable_pass'] if n not in passed]
newpass = sorted(passed - set(b['stable_pass']))
print('passed', len(passed), 'failed', len(failed), 'baseline stable', len(b['stable_pass']), 'missing', len(miss))
for m in miss: print('  MISSING', m)
print('newly passing:', len(newpass))
for m in newpass: print('  +', m)
PY
rm -f /tmp/_baseline.junit.xml
