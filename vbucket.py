#!/venv/bin/python
"""debug helper: run every case of a property in-process and bucket the
violation messages (numbers normalised).  usage: vbucket.py Cxx [filter-expr]
where filter-expr is a python expression over `spec` (default True)."""
import sys, json, collections, re
PROPID = sys.argv[1]
FILT = sys.argv[2] if len(sys.argv) > 2 else 'True'
TIER = sys.argv[3] if len(sys.argv) > 3 else 'quick'
sys.path[:0] = ['/verif', '/verif/.deps']
from pncmon import cli, harness
harness.setup()
mod = cli.load(PROPID)
cnt = collections.Counter(); ex = {}
for idx in range(mod.ncases(TIER)):
    spec = mod.gen(cli.case_rng(0, PROPID, idx), idx, TIER, 0)
    if not eval(FILT):
        continue
    r = cli.Result()
    try:
        mod.run(spec, r)
    except Exception as e:
        print('ERR', idx, repr(e)); continue
    for v in r.viols:
        k = v['kind'] + ' :: ' + re.sub(r'\d+', 'N', v['msg'])[:150]
        cnt[k] += 1
        ex.setdefault(k, (idx, v['msg'][:400]))
for k, c in cnt.most_common():
    print(c, k, '\n    ', ex[k])
