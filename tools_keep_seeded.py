#!/venv/bin/python
"""Copies a confirmed seeded change from the agents' scratch output into
/verif/seeded/<id>/ (patch.diff, demo.py, meta.json)."""
import json, os, shutil, sys
src, sid, prop = sys.argv[1], sys.argv[2], sys.argv[3]
ev = json.load(open(os.path.join(src, 'eval.json')))
dst = os.path.join('/verif/seeded', sid)
os.makedirs(dst, exist_ok=True)
shutil.copy(os.path.join(src, 'patch.diff'), dst)
demo = open(os.path.join(src, 'demo.py')).read()
open(os.path.join(dst, 'demo.py'), 'w').write(demo)
notes = open(os.path.join(src, 'notes.md')).read() if os.path.exists(os.path.join(src, 'notes.md')) else ''
meta = {
    'id': sid, 'breaks_property': prop,
    'what_it_needs_to_manifest_and_why_tests_miss_it': notes.strip(),
    'confirmed': {
        'applied_in': 'scratch git worktree of /repo HEAD (never in /repo)',
        'repo_tests_newly_failing_with_patch': ev.get('tests_newly_failing'),
        'repo_tests_passing_base_vs_mutant': [ev.get('tests_pass_base'), ev.get('tests_pass_mutant')],
        'demo_exit_without_patch': ev.get('demo_without_patch'),
        'demo_exit_with_patch': ev.get('demo_with_patch'),
        'demo_output_with_patch': ev.get('demo_output_with_patch'),
    },
    'checks_run': {p: {s: {'exit': r['rc'], 'first_lines': r['lines'][:2]} for s, r in v.items()} for p, v in ev['checks'].items()},
    'detected_by': ev.get('detected_by'),
    'command': './tools_seeded.py seeded/%s --props %s' % (sid, ','.join(ev['checks'])),
}
json.dump(meta, open(os.path.join(dst, 'meta.json'), 'w'), indent=1)
print(sid, 'kept; detected by', meta['detected_by'])
