#!/bin/bash
# Offline setup: put icontract (and its pure-python deps) beside the
# repository's interpreter in the git-ignored /verif/.deps, then smoke-import
# the library from the current tree.
set -e
here="$(cd "$(dirname "${BASH_SOURCE[0]}")" && pwd)"
cd "$here"
if [ ! -d "$here/.deps/icontract" ]; then
    PIP_NO_INDEX=1 /venv/bin/python -m pip install --quiet --no-index \
        --find-links /opt/veriftools/wheels --target "$here/.deps" icontract \
        2>&1 | grep -v -i -E "conda|warning" || true
fi
PYTHONDONTWRITEBYTECODE=1 PYTHONPATH="$here:$here/.deps" /venv/bin/python - <<'EOF'
import icontract
from pncmon import harness
harness.setup()
import PseudoNetCDF
print('setup ok: PseudoNetCDF from', PseudoNetCDF.__file__, 'icontract', icontract.__version__)
EOF
