#!/bin/bash
# Re-runs every kept seeded change against the checks as committed now (a
# snapshot worktree of /verif HEAD, so /verif can be edited meanwhile), with
# the properties recorded in its meta.json, quick tier, seed 0, 4 at a time,
# without the repository suite.
# usage: ./tools_reverify_seeded.sh [outfile]
out=${1:-/tmp/reverify_seeded.txt}
: > "$out"
snap=$(mktemp -d /tmp/verif-snap-XXXX); rmdir "$snap"
git -C /verif worktree add -q --detach "$snap" HEAD || exit 2
ln -s /verif/.deps "$snap/.deps"
export VERIF_CHECK_DIR="$snap"
cd /verif
ls seeded | grep '^C' | xargs -P 4 -I{} sh -c '
  id={}
  props=$(/venv/bin/python -c "import json,sys; c=json.load(open(\"seeded/$id/meta.json\"))[\"command\"]; print(c.split(\"--props\")[1].split()[0])")
  r=$(./tools_seeded.py seeded/$id --props $props --skip-tests 2>/dev/null | /venv/bin/python -c "import json,sys; d=json.load(sys.stdin); print(d.get(\"detected_by\"), d.get(\"demo_without_patch\"), d.get(\"demo_with_patch\"), d.get(\"apply_failed\",\"\")[:80])")
  st=$(/venv/bin/python -c "import json; print(\"NEUTRALISED\" if json.load(open(\"seeded/$id/meta.json\")).get(\"status\") else \"\")")
  echo "$id $r $st" >> '"$out"'
'
git -C /verif worktree remove --force "$snap"
sort "$out" -o "$out"
echo "detected: $(grep -c "\[.C" "$out") of $(wc -l < "$out") (neutralised by a later repair: $(grep -c NEUTRALISED "$out"))"
