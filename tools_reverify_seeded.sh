#!/bin/bash
# Re-runs every kept seeded change against the current checks (property's own
# quick check, seed 0), 4 at a time, without the repository suite.
# usage: ./tools_reverify_seeded.sh [outfile]
out=${1:-/tmp/reverify_seeded.txt}
: > "$out"
cd /verif
ls seeded | xargs -P 4 -I{} sh -c '
  id={}; p=${id%%-*}
  r=$(./tools_seeded.py seeded/$id --props $p --skip-tests 2>/dev/null | /venv/bin/python -c "import json,sys; d=json.load(sys.stdin); print(d.get(\"detected_by\"), d.get(\"demo_without_patch\"), d.get(\"demo_with_patch\"), d.get(\"apply_failed\",\"\")[:80])")
  echo "$id $r" >> '"$out"'
'
sort "$out" -o "$out"
grep -c "\[.C" "$out"
