#!/bin/bash
# usage: runall.sh <tier> <seed> [props...]   (debug helper, not registered)
tier=${1:-quick}; seed=${2:-0}; shift 2
props=${@:-C01 C02 C03 C04 C05 C06 C07 C08 C09 C10 C11 C12 C13 C14 C15 C16 C17 C18 C19 C20}
for p in $props; do
  s=$(date +%s)
  out=$(VERIF_SEED=$seed ./check $p --tier $tier 2>&1 | grep -v conda)
  rc=$?
  e=$(date +%s)
  echo "$p seed=$seed tier=$tier $((e-s))s :: $(echo "$out" | grep -E '^(HELD|VIOLATED|INCONCLUSIVE) ' | cut -c1-160)"
  echo "$out" | grep -E "^VIOLATION|^INCONCLUSIVE" | cut -c1-300
done
