"""Deep, bit-exact snapshots of netCDF-like files and their comparison."""
from collections import OrderedDict

import numpy as np

IOAPI_STAMPS = ('CDATE', 'CTIME', 'WDATE', 'WTIME')


def _text(data):
    """object arrays (netCDF string variables) as fixed-width text: compared
    and digested by content, not by object identity"""
    if data.dtype.kind == 'O':
        try:
            return np.array([str(x) for x in data.ravel()],
                            dtype='U').reshape(data.shape)
        except Exception:
            return data
    return data


def plain(a):
    """(data ndarray copy, mask ndarray copy or None, fill)"""
    if not isinstance(a, np.ma.MaskedArray) and getattr(
            np.asarray(a), 'dtype', np.dtype('f8')).kind == 'O':
        return _text(np.array(a, copy=True, subok=False)), None, None
    if isinstance(a, np.ma.MaskedArray) and np.ma.getdata(a).dtype.kind == \
            'O':
        return (_text(np.array(np.ma.getdata(a), copy=True, subok=False)),
                np.array(np.ma.getmaskarray(a), copy=True, subok=False), None)
    if isinstance(a, np.ma.MaskedArray):
        data = np.array(np.ma.getdata(a), copy=True, subok=False)
        mask = np.array(np.ma.getmaskarray(a), copy=True, subok=False)
        try:
            # read the stored value without numpy's validating getter (which
            # re-casts an unrepresentable fill in place) and compare fills as
            # values of the variable's dtype
            fill = getattr(a, '_fill_value', None)
            if fill is None:
                fill = a.fill_value
            with np.errstate(all='ignore'):
                fill = np.asarray(fill).astype(data.dtype, casting='unsafe')
            fill = fill.item() if np.ndim(fill) == 0 else None
        except Exception:
            fill = None
        return data, mask, fill
    return np.array(a, copy=True, subok=False), None, None


def attr_copy(v):
    if isinstance(v, np.ndarray):
        return np.array(v, copy=True, subok=False)
    if isinstance(v, (list, tuple)):
        return type(v)(attr_copy(x) for x in v)
    return v


def attrs_of(o):
    out = OrderedDict()
    errs = []
    for k in o.ncattrs():
        try:
            # getncattr first: on netCDF4 objects a python attribute of the
            # same name (scale, mask, dtype ...) shadows the netCDF attribute
            if hasattr(o, 'getncattr'):
                try:
                    out[k] = attr_copy(o.getncattr(k))
                    continue
                except Exception:
                    pass
            out[k] = attr_copy(getattr(o, k))
        except Exception as e:  # listed but not retrievable
            errs.append((k, repr(e)))
    return out, errs


class VarSnap:
    __slots__ = ('dims', 'dtype', 'shape', 'data', 'mask', 'fill', 'attrs',
                 'attr_errs', 'masked_type')


class FileSnap:
    __slots__ = ('dims', 'attrs', 'attr_errs', 'vars', 'coords', 'cls')


def snap_var(v):
    s = VarSnap()
    s.dims = tuple(v.dimensions)
    arr = v[...]
    if arr is np.ma.masked:
        # netCDF4 returns the (float64) masked singleton for a masked 0-d
        # value; the variable's own dtype is the observable one
        arr = np.ma.array(np.zeros((), getattr(v, 'dtype', 'f8')), mask=True)
    s.masked_type = isinstance(arr, np.ma.MaskedArray)
    s.data, s.mask, s.fill = plain(arr)
    # (text: the width of the array is not a property of the variable)
    s.dtype = 'U' if s.data.dtype.kind == 'U' else s.data.dtype.str
    s.shape = tuple(s.data.shape)
    s.attrs, s.attr_errs = attrs_of(v)
    return s


def snap_file(f, keys=None):
    s = FileSnap()
    s.cls = type(f).__name__
    s.dims = OrderedDict()
    for k, d in f.dimensions.items():
        s.dims[k] = (len(d), bool(d.isunlimited()))
    s.attrs, s.attr_errs = attrs_of(f)
    s.vars = OrderedDict()
    for k in (keys if keys is not None else list(f.variables.keys())):
        s.vars[k] = snap_var(f.variables[k])
    try:
        s.coords = tuple(sorted(f.getCoords()))
    except Exception:
        s.coords = ()
    return s


def same_value(a, b, exact_type=True):
    """Attribute-value equality, NaN-safe and type-aware."""
    if isinstance(a, np.ndarray) or isinstance(b, np.ndarray):
        a1, b1 = np.asarray(a), np.asarray(b)
        if a1.shape != b1.shape:
            return False
        if exact_type and a1.dtype != b1.dtype:
            return False
        if a1.dtype.kind in 'fc' or b1.dtype.kind in 'fc':
            try:
                return bool(np.array_equal(a1, b1, equal_nan=True))
            except TypeError:
                return bool(np.array_equal(a1, b1))
        return bool(np.array_equal(a1, b1))
    if isinstance(a, (list, tuple)) and isinstance(b, (list, tuple)):
        return len(a) == len(b) and all(
            same_value(x, y, exact_type) for x, y in zip(a, b))
    if exact_type and type(a) is not type(b):
        # python int vs numpy int of the same value are distinct observations
        # only when a property names dtypes; callers pass exact_type=False
        return False
    try:
        if a != a and b != b:
            return True
    except Exception:
        pass
    try:
        r = (a == b)
        if isinstance(r, np.ndarray):
            return bool(r.all())
        return bool(r)
    except Exception:
        return False


def data_equal(d1, m1, d2, m2):
    """bit-exact equality on unmasked cells + identical masks"""
    if d1.shape != d2.shape or (d1.dtype != d2.dtype and not (
            d1.dtype.kind == 'U' and d2.dtype.kind == 'U')):
        return False
    if m1 is None and m2 is None:
        return d1.tobytes() == d2.tobytes()
    m1a = np.zeros(d1.shape, bool) if m1 is None else m1
    m2a = np.zeros(d2.shape, bool) if m2 is None else m2
    if not np.array_equal(m1a, m2a):
        return False
    keep = ~m1a
    return d1[keep].tobytes() == d2[keep].tobytes()


def diff_var(a, b, name, attrs=True, fill=True, exact_type=True):
    out = []
    if a.dims != b.dims:
        out.append('%s: dimensions %s -> %s' % (name, a.dims, b.dims))
    if a.dtype != b.dtype:
        out.append('%s: dtype %s -> %s' % (name, a.dtype, b.dtype))
    if a.shape != b.shape:
        out.append('%s: shape %s -> %s' % (name, a.shape, b.shape))
    elif a.dtype == b.dtype and not data_equal(a.data, a.mask, b.data,
                                               b.mask):
        ma = np.zeros(a.shape, bool) if a.mask is None else a.mask
        mb = np.zeros(b.shape, bool) if b.mask is None else b.mask
        if not np.array_equal(ma, mb):
            out.append('%s: mask changed (%d -> %d masked cells)'
                       % (name, int(ma.sum()), int(mb.sum())))
        else:
            ne = (a.data != b.data) & ~ma
            idx = np.argwhere(ne)
            first = tuple(idx[0]) if len(idx) else ()
            out.append('%s: %d unmasked cells changed, first at %s: %r -> %r'
                       % (name, int(ne.sum()), first,
                          a.data[first] if len(idx) else None,
                          b.data[first] if len(idx) else None))
    if fill and (a.masked_type or b.masked_type) and a.masked_type and \
            b.masked_type and not same_value(a.fill, b.fill, False):
        out.append('%s: fill value %r -> %r' % (name, a.fill, b.fill))
    if attrs:
        out += diff_attrs(a.attrs, b.attrs, name + ':', exact_type)
    return out


def diff_attrs(a, b, prefix='', exact_type=True, ignore=()):
    out = []
    for k in a:
        if k in ignore:
            continue
        if k not in b:
            out.append('%sattribute %s removed' % (prefix, k))
        elif not same_value(a[k], b[k], exact_type):
            out.append('%sattribute %s %r -> %r' % (prefix, k, a[k], b[k]))
    for k in b:
        if k not in a and k not in ignore:
            out.append('%sattribute %s added' % (prefix, k))
    if not out and exact_type:
        ka = [k for k in a if k not in ignore]
        kb = [k for k in b if k not in ignore]
        if ka != kb:
            out.append('%sattribute order %s -> %s' % (prefix, ka, kb))
    return out


def diff_file(a, b, ignore_attrs=(), exact_type=True):
    """All differences between two FileSnaps (used as 'input unchanged')."""
    out = []
    if list(a.dims.items()) != list(b.dims.items()):
        out.append('dimensions %s -> %s' % (dict(a.dims), dict(b.dims)))
    out += diff_attrs(a.attrs, b.attrs, 'global ', exact_type, ignore_attrs)
    if list(a.vars) != list(b.vars):
        out.append('variables %s -> %s' % (list(a.vars), list(b.vars)))
    for k in a.vars:
        if k in b.vars:
            out += diff_var(a.vars[k], b.vars[k], k, exact_type=exact_type)
    if a.coords != b.coords:
        out.append('coordinate keys %s -> %s' % (a.coords, b.coords))
    return out


def file_digest_bytes(s):
    import hashlib
    h = hashlib.sha1()
    h.update(repr(list(s.dims.items())).encode())
    for k, v in s.vars.items():
        h.update(k.encode())
        h.update(repr(v.dims).encode())
        h.update(v.dtype.encode())
        h.update(v.data.tobytes())
        if v.mask is not None:
            h.update(v.mask.tobytes())
    return h.hexdigest()[:14]


def wellformed(f):
    """C01 oracle: list of structural defects of a netCDF-like file."""
    bad = []
    try:
        dims = {k: len(d) for k, d in f.dimensions.items()}
    except Exception as e:
        return ['dimensions unreadable: %r' % (e,)]
    try:
        keys = list(f.variables.keys())
    except Exception as e:
        return ['variables unreadable: %r' % (e,)]
    for k in keys:
        try:
            v = f.variables[k]
        except Exception as e:
            bad.append('variable %s listed but not retrievable: %r' % (k, e))
            continue
        vd = getattr(v, 'dimensions', None)
        if not isinstance(vd, tuple):
            bad.append('variable %s: dimensions attribute is %r' % (k, vd))
            continue
        missing = [d for d in vd if d not in dims]
        if missing:
            bad.append('variable %s uses dimensions %s not in file %s'
                       % (k, missing, list(dims)))
            continue
        want = tuple(dims[d] for d in vd)
        try:
            shape = tuple(v.shape)
        except Exception as e:
            bad.append('variable %s: no shape: %r' % (k, e))
            continue
        if shape != want:
            bad.append('variable %s%s has shape %s but dimension lengths %s'
                       % (k, vd, shape, want))
        try:
            got = tuple(np.asarray(v[...]).shape)
            if got != want:
                bad.append('variable %s%s data shape %s != dims %s'
                           % (k, vd, got, want))
        except Exception as e:
            bad.append('variable %s data not readable: %r' % (k, e))
        try:
            for a in v.ncattrs():
                try:
                    getattr(v, a)
                except Exception as e:
                    bad.append('variable %s attribute %s listed but not '
                               'retrievable: %r' % (k, a, e))
                if hasattr(v, 'getncattr'):
                    try:
                        v.getncattr(a)
                    except Exception as e:
                        bad.append('variable %s getncattr(%s) fails: %r'
                                   % (k, a, e))
        except Exception as e:
            bad.append('variable %s ncattrs fails: %r' % (k, e))
    try:
        for a in f.ncattrs():
            # retrievable through the netCDF interface (plain getattr on a
            # netCDF4 dataset is shadowed for names like scale or mask by
            # netCDF4-python itself)
            if hasattr(f, 'getncattr'):
                try:
                    f.getncattr(a)
                except Exception as e:
                    bad.append('global attribute %s listed but '
                               'getncattr fails: %r' % (a, e))
            else:
                try:
                    getattr(f, a)
                except Exception as e:
                    bad.append('global attribute %s listed but not '
                               'retrievable: %r' % (a, e))
    except Exception as e:
        bad.append('ncattrs fails: %r' % (e,))
    return bad


def check_var(got, name, dims=None, data=None, mask=None, attrs=None,
              rtol=None, atol=0.0, dtype=None, attr_ignore=()):
    """Compare a VarSnap with an expectation; None = not demanded.
    rtol None -> bit-exact on unmasked cells."""
    out = []
    if dims is not None and tuple(got.dims) != tuple(dims):
        out.append('%s: dimensions %s, expected %s' % (name, got.dims,
                                                       tuple(dims)))
    if dtype is not None and np.dtype(got.dtype) != np.dtype(dtype):
        out.append('%s: dtype %s, expected %s' % (name, got.dtype,
                                                  np.dtype(dtype).str))
    if data is not None:
        data = np.asarray(data)
        if tuple(got.shape) != tuple(data.shape):
            out.append('%s: shape %s, expected %s' % (name, got.shape,
                                                      data.shape))
        else:
            gm = np.zeros(got.shape, bool) if got.mask is None else got.mask
            em = np.zeros(data.shape, bool) if mask is None else \
                np.asarray(mask, bool)
            if not np.array_equal(gm, em):
                idx = np.argwhere(gm != em)
                out.append('%s: mask differs at %d cells, first %s: got %s '
                           'expected %s' % (name, len(idx), tuple(idx[0]),
                                            gm[tuple(idx[0])],
                                            em[tuple(idx[0])]))
            else:
                keep = ~em
                g = got.data[keep]
                e = data[keep]
                if rtol is None:
                    if g.dtype != e.dtype:
                        try:
                            same = bool(np.array_equal(g, e, equal_nan=True))
                        except TypeError:
                            same = bool(np.array_equal(g, e))
                    else:
                        same = g.tobytes() == e.tobytes()
                        if not same and g.dtype.kind == 'f':
                            # -0.0 vs 0.0 and nan payloads are not demanded
                            same = bool(np.array_equal(g, e, equal_nan=True))
                else:
                    with np.errstate(all='ignore'):
                        same = bool(np.allclose(
                            g.astype('f8'), e.astype('f8'), rtol=rtol,
                            atol=atol, equal_nan=True))
                if not same:
                    with np.errstate(all='ignore'):
                        if rtol is None:
                            ne = ~((g == e) | ((g != g) & (e != e)))
                        else:
                            ne = ~np.isclose(g.astype('f8'), e.astype('f8'),
                                             rtol=rtol, atol=atol,
                                             equal_nan=True)
                    j = int(np.argmax(ne)) if ne.any() else 0
                    out.append('%s: %d of %d unmasked values differ; first '
                               '(flat unmasked index %d): got %r expected %r'
                               % (name, int(ne.sum()), g.size, j,
                                  g[j] if g.size else None,
                                  e[j] if e.size else None))
    if attrs is not None:
        for k, v in attrs.items():
            if k in attr_ignore:
                continue
            if k not in got.attrs:
                out.append('%s: attribute %s missing' % (name, k))
            elif not same_value(v, got.attrs[k], exact_type=False):
                out.append('%s: attribute %s = %r, expected %r'
                           % (name, k, got.attrs[k], v))
        for k in got.attrs:
            if k not in attrs and k not in attr_ignore:
                out.append('%s: unexpected attribute %s' % (name, k))
    return out
