"""Seeded generator of IOAPI-convention files and independent YYYYJJJ/HHMMSS
calendar arithmetic."""
import datetime

import numpy as np

from . import gen_core


def isleap(y):
    return y % 4 == 0 and (y % 100 != 0 or y % 400 == 0)


def jd_add(yyyyjjj, hhmmss, seconds):
    """(YYYYJJJ, HHMMSS) + seconds by integer arithmetic."""
    y, j = divmod(int(yyyyjjj), 1000)
    h, r = divmod(int(hhmmss), 10000)
    m, s = divmod(r, 100)
    tot = h * 3600 + m * 60 + s + int(seconds)
    dd, tot = divmod(tot, 86400)
    j += dd
    while j > (366 if isleap(y) else 365):
        j -= 366 if isleap(y) else 365
        y += 1
    while j < 1:
        y -= 1
        j += 366 if isleap(y) else 365
    h, r = divmod(tot, 3600)
    m, s = divmod(r, 60)
    return y * 1000 + j, h * 10000 + m * 100 + s


def tstep_seconds(tstep):
    h, r = divmod(int(tstep), 10000)
    m, s = divmod(r, 100)
    return h * 3600 + m * 60 + s


def jd_tuple(yyyyjjj, hhmmss):
    """-> (Y, M, D, h, m, s) via month-length table (no datetime)."""
    y, j = divmod(int(yyyyjjj), 1000)
    ml = [31, 29 if isleap(y) else 28, 31, 30, 31, 30, 31, 31, 30, 31, 30, 31]
    mo = 0
    while j > ml[mo]:
        j -= ml[mo]
        mo += 1
    h, r = divmod(int(hhmmss), 10000)
    m, s = divmod(r, 100)
    return (y, mo + 1, j, h, m, s)


def dt_tuple(d):
    return (d.year, d.month, d.day, d.hour, d.minute, d.second)


SDATES = [2000060, 2000366, 1999365, 2001059, 2004060, 2019182, 1970001,
          2100059, 1996366, 2023001, 2024366, 2016060]
TSTEPS = [10000, 3000, 30000, 240000, 1500, 60000, 120000, 100, 1, 1000000,
          7440000]


def gen_spec(rng, kind=None, maxn=4, via=None):
    want_uamiv = via == 'uamiv'
    if want_uamiv:
        kind, via = 'grid', None
    kind = kind or str(rng.choice(['grid', 'grid', 'grid', 'bdy']))
    nt = int(rng.integers(1, maxn + 1))
    nz = int(rng.integers(1, maxn + 1))
    ny = int(rng.integers(1, maxn + 2))
    nx = int(rng.integers(1, maxn + 2))
    nv = int(rng.integers(1, 5))
    sdate = int(rng.choice(SDATES)) if rng.random() < 0.7 else \
        int(rng.integers(1950, 2090)) * 1000 + int(rng.integers(1, 366))
    stime = int(rng.choice([0, 0, 120000, 230000, 233000, 235959, 60000,
                            int(rng.integers(0, 24)) * 10000]))
    tstep = int(rng.choice(TSTEPS))
    edges = np.sort(rng.uniform(0, 1, nz - 1))[::-1] if nz > 1 else []
    vglvls = [1.0] + [float(np.float32(x)) for x in edges] + [0.0]
    spec = {
        'kind': kind, 'nt': nt, 'nz': nz, 'ny': ny, 'nx': nx,
        'names': ['O3', 'NO2', 'CO_X', 'A1234567890123BC'][:nv],
        'sdate': sdate, 'stime': stime, 'tstep': tstep,
        'xorig': float(rng.choice([-2556000., 0., 12345.5, -100.25])),
        'yorig': float(rng.choice([-1728000., 0., -54321.25, 300.5])),
        'xcell': float(rng.choice([12000., 4000., 1.5, 36000.])),
        'ycell': float(rng.choice([12000., 4000., 2.5, 36000.])),
        'vglvls': vglvls, 'seed': int(rng.integers(1 << 30)),
        'via': via or str(rng.choice(['from_arrays', 'from_arrays',
                                      'griddesc'])),
        'masked': bool(rng.random() < 0.25),
    }
    if kind == 'bdy':
        spec['via'] = 'from_arrays'
    if spec['via'] == 'from_arrays' and rng.random() < 0.25:
        # the caller hands its own (consistent) TFLAG to from_arrays
        spec['own_tflag'] = True
    if spec['via'] == 'griddesc' and rng.random() < 0.5:
        # with the CF coordinate variables the constructor adds by default
        spec['withcf'] = True
    if rng.random() < 0.15:
        # a variable without dimensions next to the gridded ones (a CF
        # grid-mapping variable, a scalar constant)
        spec['scalar'] = True
    if want_uamiv or (via is None and kind == 'grid' and UAMIV_SHARE and
                      rng.random() < UAMIV_SHARE):
        # the IOAPI-class file the gridded CAMx READER returns for an image
        # written by the independent codec (whole-hour times, names of at
        # most 10 characters, uniform sigma levels, two-digit-year window)
        spec['via'] = 'uamiv'
        spec.pop('scalar', None)
        spec.pop('own_tflag', None)
        spec.pop('withcf', None)
        spec['masked'] = False
        spec['names'] = ['O3', 'NO2', 'CO_X', 'ABCDEFGHIJ'][:nv]
        spec['stime'] = (stime // 10000) * 10000
        spec['tstep'] = int(rng.choice([10000, 30000, 60000, 120000,
                                        240000]))
        spec['vglvls'] = [float(np.float32(x)) for x in
                          np.linspace(0, 1, nz + 1)[::-1]]
        y, j = divmod(sdate, 1000)
        if not 1971 <= y <= 2067:
            spec['sdate'] = (1971 + y % 96) * 1000 + min(j, 365)
    return spec


# share of gridded specs read through the CAMx reader (0 switches it off)
UAMIV_SHARE = 0.12
_uamiv_paths = []


def uamiv_spec(spec):
    us = _uamiv_spec(spec)
    if spec['nz'] == 1 and spec['seed'] % 3 == 0:
        # a surface file as the emissions preprocessors write it: one layer
        # of records, nz = 0 in the grid header
        us['hdr_nz'] = 0
    return us


def _uamiv_spec(spec):
    return {'fmt': 'uamiv', 'nx': spec['nx'], 'ny': spec['ny'],
            'nz': spec['nz'], 'nt': spec['nt'], 'names': list(spec['names']),
            'sdate': spec['sdate'], 'shour': spec['stime'] // 10000,
            'dhour': spec['tstep'] // 10000, 'seed': spec['seed'],
            'hostile': False, 'name': 'AVERAGE', 'iproj': 2, 'itzon': 0,
            'xorg': spec['xorig'], 'yorg': spec['yorig'],
            'delx': spec['xcell'], 'dely': spec['ycell']}


def build_uamiv(spec):
    import os
    import tempfile
    from . import harness, refcamx
    from PseudoNetCDF.camxfiles.Memmaps import uamiv
    fd, path = tempfile.mkstemp(suffix='.uamiv', dir=harness.tmproot())
    with os.fdopen(fd, 'wb') as fh:
        fh.write(refcamx.encode(uamiv_spec(spec)))
    _uamiv_paths.append(path)
    while len(_uamiv_paths) > 64:
        try:
            os.unlink(_uamiv_paths.pop(0))
        except OSError:
            pass
    return uamiv(path)


def arrays(spec):
    if spec.get('via') == 'uamiv':
        from . import refcamx
        return dict(refcamx.content(uamiv_spec(spec))['vars'])
    out = {}
    for i, name in enumerate(spec['names']):
        if spec['kind'] == 'grid':
            shape = (spec['nt'], spec['nz'], spec['ny'], spec['nx'])
        else:
            shape = (spec['nt'], spec['nz'],
                     2 * (spec['ny'] + spec['nx']) + 4)
        out[name] = gen_core.payload(spec['seed'] + i, shape, 'f4')
    return out


def fileattrs(spec):
    at = {
        'SDATE': spec['sdate'], 'STIME': spec['stime'],
        'TSTEP': spec['tstep'], 'XORIG': spec['xorig'],
        'YORIG': spec['yorig'], 'XCELL': spec['xcell'],
        'YCELL': spec['ycell'],
        'VGLVLS': np.array(spec['vglvls'], dtype='f4'),
        'NLAYS': spec['nz'], 'NCOLS': spec['nx'], 'NROWS': spec['ny'],
        'NTHIK': 1, 'GDTYP': 2, 'FTYPE': 1 if spec['kind'] == 'grid' else 2,
    }
    return at


def build(spec):
    f = _build(spec)
    if spec.get('scalar'):
        sv = f.createVariable('crs', 'i', ())
        sv.grid_mapping_name = 'lambert_conformal_conic'
        sv[...] = 7
    return f


def _build(spec):
    from PseudoNetCDF.cmaqfiles import ioapi_base
    if spec.get('via') == 'uamiv':
        return build_uamiv(spec)
    arrs = arrays(spec)
    if spec['via'] == 'griddesc' and spec['kind'] == 'grid':
        from PseudoNetCDF.cmaqfiles import griddesc
        f = griddesc(
            None, GDNAM='VERIFGRID', GDTYP=2, P_ALP=33., P_BET=45.,
            P_GAM=-97., XCENT=-97., YCENT=40., XORIG=spec['xorig'],
            YORIG=spec['yorig'], XCELL=spec['xcell'], YCELL=spec['ycell'],
            NCOLS=spec['nx'], NROWS=spec['ny'], NTHIK=1, FTYPE=1,
            VGLVLS=tuple(spec['vglvls']), SDATE=spec['sdate'],
            STIME=spec['stime'], TSTEP=spec['tstep'], nsteps=spec['nt'],
            withcf=bool(spec.get('withcf')),
            var_kwds={k: {'units': 'ppmV'} for k in spec['names']})
        for k, a in arrs.items():
            f.variables[k][...] = a
        return f
    kw = {}
    for k, a in arrs.items():
        if spec.get('masked'):
            m = gen_core.maskfor(spec['seed'], a.shape, 'random')
            a = np.ma.masked_array(a, mask=m, fill_value=-999.)
        kw[k] = a
    if spec.get('own_tflag'):
        tf = np.zeros((spec['nt'], len(spec['names']), 2), 'i')
        dt = tstep_seconds(spec['tstep'])
        for i in range(spec['nt']):
            tf[i, :, 0], tf[i, :, 1] = jd_add(spec['sdate'], spec['stime'],
                                              i * dt)
        kw['TFLAG'] = tf
    fa = fileattrs(spec)
    if spec['seed'] % 5 == 0:
        # header reals held as 0-d arrays (what array arithmetic on a header
        # value leaves behind): mutable objects
        for k_ in ('XORIG', 'YORIG', 'XCELL', 'YCELL'):
            fa[k_] = np.array(fa[k_], dtype='f8')
    f = ioapi_base.from_arrays(attrs={'units': 'ppmV'},
                               fileattrs=fa, **kw)
    return f


def write_m3io(spec, path):
    """the file the Models-3 I/O API library itself writes for this spec
    (netCDF classic, 64-bit offset): int32 header integers, float64 grid
    reals, float32 VGLVLS, 16-character name fields, TFLAG first, TSTEP
    the record dimension.  Written with netCDF4 directly - independent of the
    library's writers."""
    import netCDF4
    arrs = arrays(spec)
    nt, nz, ny, nx = spec['nt'], spec['nz'], spec['ny'], spec['nx']
    names = list(spec['names'])
    ds = netCDF4.Dataset(path, 'w', format='NETCDF3_64BIT_OFFSET')
    try:
        ds.createDimension('TSTEP', None)
        ds.createDimension('DATE-TIME', 2)
        ds.createDimension('LAY', nz)
        ds.createDimension('VAR', len(names))
        if spec['kind'] == 'grid':
            ds.createDimension('ROW', ny)
            ds.createDimension('COL', nx)
            vdims = ('TSTEP', 'LAY', 'ROW', 'COL')
        else:
            ds.createDimension('PERIM', 2 * (ny + nx) + 4)
            vdims = ('TSTEP', 'LAY', 'PERIM')
        ds.IOAPI_VERSION = '$Id: @(#) ioapi library version 3.1 $'.ljust(80)
        ds.EXEC_ID = '?' * 16 + ' ' * 64
        ds.FTYPE = np.int32(1 if spec['kind'] == 'grid' else 2)
        ds.CDATE = np.int32(2020001)
        ds.CTIME = np.int32(120000)
        ds.WDATE = np.int32(2020001)
        ds.WTIME = np.int32(120000)
        ds.SDATE = np.int32(spec['sdate'])
        ds.STIME = np.int32(spec['stime'])
        ds.TSTEP = np.int32(spec['tstep'])
        ds.NTHIK = np.int32(1)
        ds.NCOLS = np.int32(nx)
        ds.NROWS = np.int32(ny)
        ds.NLAYS = np.int32(nz)
        ds.NVARS = np.int32(len(names))
        ds.GDTYP = np.int32(2)
        ds.P_ALP = np.float64(33.)
        ds.P_BET = np.float64(45.)
        ds.P_GAM = np.float64(-97.)
        ds.XCENT = np.float64(-97.)
        ds.YCENT = np.float64(40.)
        ds.XORIG = np.float64(spec['xorig'])
        ds.YORIG = np.float64(spec['yorig'])
        ds.XCELL = np.float64(spec['xcell'])
        ds.YCELL = np.float64(spec['ycell'])
        ds.VGTYP = np.int32(7)
        ds.VGTOP = np.float32(5000.)
        ds.VGLVLS = np.array(spec['vglvls'], dtype='f4')
        ds.GDNAM = 'VERIFGRID'.ljust(16)
        ds.UPNAM = 'PNCMON'.ljust(16)
        ds.setncattr('VAR-LIST', ''.join(n.ljust(16) for n in names))
        ds.FILEDESC = 'reference file written by pncmon'.ljust(80)
        ds.HISTORY = ''
        tf = ds.createVariable('TFLAG', 'i4', ('TSTEP', 'VAR', 'DATE-TIME'))
        tf.units = '<YYYYDDD,HHMMSS>'
        tf.long_name = 'TFLAG'.ljust(16)
        tf.var_desc = ('Timestep-valid flags:  (1) YYYYDDD or (2) HHMMSS'
                       ).ljust(80)
        vs = {}
        for n in names:
            v = ds.createVariable(n, 'f4', vdims)
            v.long_name = n.ljust(16)
            v.units = 'ppmV'.ljust(16)
            v.var_desc = ('Variable ' + n).ljust(80)
            vs[n] = v
        dt = tstep_seconds(spec['tstep'])
        for i in range(nt):
            d_, t_ = jd_add(spec['sdate'], spec['stime'], i * dt)
            tf[i, :, 0] = d_
            tf[i, :, 1] = t_
            for n in names:
                vs[n][i] = np.ma.getdata(arrs[n])[i]
    finally:
        ds.close()


def open_m3io(spec, d, h, name='m3io.nc'):
    """-> the IOAPI file of this spec as the I/O API library writes it,
    opened with the library's ioapi reader (None when the spec has features
    such a file cannot carry)"""
    import os
    import PseudoNetCDF as pnc
    if spec.get('via') == 'uamiv' or spec.get('scalar') or \
            spec.get('withcf') or any(len(n) > 16 for n in spec['names']):
        return None
    path = os.path.join(d, name)
    write_m3io(spec, path)
    return h.keep(pnc.pncopen(path, format='ioapi'))


def expected_times(spec, n=None):
    """list of (Y,M,D,h,m,s) for each time step by integer arithmetic"""
    n = spec['nt'] if n is None else n
    dt = tstep_seconds(spec['tstep'])
    out = []
    for i in range(n):
        d, t = jd_add(spec['sdate'], spec['stime'], i * dt)
        out.append(jd_tuple(d, t))
    return out


def coherent(f):
    """C10 oracle: list of incoherences between IOAPI metadata and content."""
    bad = []
    try:
        nvars = int(f.NVARS)
    except Exception as e:
        return ['NVARS unreadable: %r' % (e,)]
    vl = getattr(f, 'VAR-LIST', None)
    if vl is None:
        return ['VAR-LIST missing']
    if len(vl) % 16 != 0:
        bad.append('VAR-LIST length %d is not a multiple of 16' % len(vl))
    names = [vl[i * 16:(i + 1) * 16].strip() for i in range(len(vl) // 16)]
    if len(names) != nvars:
        bad.append('NVARS=%d but VAR-LIST lists %d names %s'
                   % (nvars, len(names), names))
    if 'VAR' not in f.dimensions:
        bad.append('VAR dimension missing')
    elif len(f.dimensions['VAR']) != max(len(names), 0) and not (
            len(names) == 0 and len(f.dimensions['VAR']) == 1):
        bad.append('VAR dimension %d != %d listed variables'
                   % (len(f.dimensions['VAR']), len(names)))
    if 'TFLAG' in f.variables:
        tf = f.variables['TFLAG']
        if tf.shape[1] != len(names) and not (len(names) == 0 and
                                              tf.shape[1] == 1):
            bad.append('TFLAG second axis %d != %d listed variables'
                       % (tf.shape[1], len(names)))
    else:
        bad.append('TFLAG missing')
    for n in names:
        if n not in f.variables:
            bad.append('listed variable %s does not exist' % n)
            continue
        d = tuple(f.variables[n].dimensions)
        if d not in (('TSTEP', 'LAY', 'ROW', 'COL'),
                     ('TSTEP', 'LAY', 'PERIM')):
            bad.append('listed variable %s has dimensions %s' % (n, d))
    for at, dk in (('NCOLS', 'COL'), ('NROWS', 'ROW'), ('NLAYS', 'LAY')):
        if dk in f.dimensions and hasattr(f, at):
            if int(getattr(f, at)) != len(f.dimensions[dk]):
                bad.append('%s=%s but dimension %s has length %d'
                           % (at, getattr(f, at), dk, len(f.dimensions[dk])))
    if 'LAY' in f.dimensions and hasattr(f, 'VGLVLS'):
        nl = len(f.dimensions['LAY'])
        if np.size(f.VGLVLS) != nl + 1:
            bad.append('VGLVLS has %d entries for %d layers'
                       % (np.size(f.VGLVLS), nl))
    if 'TFLAG' in f.variables and f.variables['TFLAG'].shape[0] > 0 and \
            f.variables['TFLAG'].shape[1] > 0:
        tfa = np.asarray(f.variables['TFLAG'][...])
        d_, t_ = tfa[..., 0].astype('i8'), tfa[..., 1].astype('i8')
        if ((d_ % 1000 < 1) | (d_ % 1000 > 366) | (d_ < 1000) |
                (t_ < 0) | (t_ // 10000 > 23) | (t_ % 10000 // 100 > 59) |
                (t_ % 100 > 59)).any() and not (d_ == -635).all():
            bad.append('TFLAG holds values that are not YYYYJJJ/HHMMSS '
                       'stamps, e.g. %s' % tfa.reshape(-1, 2)[0].tolist())
        t0 = tfa[0, 0]
        if int(t0[0]) != int(f.SDATE) or int(t0[1]) != int(f.STIME):
            bad.append('SDATE/STIME=(%s,%s) but TFLAG[0,0]=(%s,%s)'
                       % (f.SDATE, f.STIME, t0[0], t0[1]))
    return bad
