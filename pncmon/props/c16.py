"""C16 -- value-to-index lookup returns the containing / nearest cell.

Monitor: icontract postcondition on the real val2idx method (plus time2idx);
oracle: brute-force linear scan over cells."""
import datetime

import icontract
import numpy as np

from .. import gen_core, harness
from ..cli import digest

PROP = 'C16'
LEVEL = 'exploration'
RULE = ('strictly monotonic 1-D coordinates (ascending/descending, exactly '
        'uniform / non-uniform, length 2-12, stored as float64, float32 or '
        'int32) x bounds representation {none, '
        '1-D edges, n x 2, via the bounds attribute, <dim>_bnds} x method '
        '{nearest, bounds, exact} x clean {none, mask} x bounds option '
        '{ignore, warn, error} x left/right {None, nan}; query batch = all '
        'centres, all edges, one ulp inside/outside every edge, midpoints, '
        'random interior points and points outside the domain; plus datetime '
        'lookups (time2idx) on CF time coordinates. evaluations = lookups '
        '(batches); non-trivial = batch holds in-range and out-of-range '
        'values; distinct = digest of the spec.')
RULE += (' Also: axes of 13-40 cells with repeated query values, a second coordinate in the same file (y = 2x with its own bounds) looked up after the first, cftime noleap calendars, coordinates read from disk.')
RULE += (' One case in 25 looks values up on every strictly monotonic coordinate of the object bpch1, bpch2 or arlpackedbit return for a reference image, with the bounds variables the reader itself built (same query batches, same oracle; float32 centres without bounds: queries within float32 rounding of a derived edge are left out).')
RULE += (' For bounds="warn"/"error" four more batches per case: in-range centres plus ONE value, the nearest representable number (float64, or float32 for float32 query arrays) beyond the lowest / highest limit (must be reported) and at or just inside each limit (must not be).')
ASSUMPTIONS = [
    'a value exactly on an interior edge may be attributed to either '
    'neighbour; exact ties of "nearest" accept both neighbours',
    'without bounds variables interior cell edges are the midpoints between '
    'centres; the outer half cells (beyond the outer centres, up to half the '
    'adjacent spacing) are a don\'t-care region unless the spacing is exactly '
    'uniform (then they belong to the outer cells)',
    'out-of-range handling is judged only for what the caller requested: '
    'bounds="error" must raise, bounds="warn" must warn, clean="mask" with '
    'left/right=nan must mask; bounds="ignore" with clean="none" may clamp',
]
HOOKS = ['val2idx.twin', 'val2idx.contract', 'time2idx.return',
         'val2idx.after-edit']
TECHNIQUE = ('runtime contract (icontract ensure on the real method) with a '
             'brute-force cell-search oracle over generated query batches')
MIN_DISTINCT = {'quick': 800, 'thorough': 10000}
N = {'quick': 3000, 'thorough': 60000}


class PostBroken(Exception):
    pass


def ncases(tier):
    return N[tier]


READER_KINDS = ['bpch1', 'arl', 'bpch2', 'arl']


def gen(rng, idx, tier, seed):
    if idx % 25 == 12:
        # the coordinates (and bounds variables) a library reader builds
        from .. import readerfiles
        return {'mode': 'reader', 'seed': int(rng.integers(1 << 30)),
                'reader': readerfiles.gen_spec(
                    rng, kind=READER_KINDS[(idx // 25) % len(READER_KINDS)]),
                'method': ['nearest', 'bounds', 'exact'][(idx // 25) % 3],
                'clean': str(rng.choice(['none', 'mask'])),
                'boundsopt': str(rng.choice(['ignore', 'warn', 'error'])),
                'nanlr': bool(rng.random() < 0.5)}
    if idx % 10 == 9:
        n = int(rng.integers(2, 8))
        return {'mode': 'time', 'n': n,
                'units': str(rng.choice(['hours since 2000-01-01 00:00:00',
                                         'days since 1999-12-31 00:00:00',
                                         'minutes since 2010-06-15 12:30:00',
                                         'seconds since 1970-01-01 00:00:00'
                                         ])),
                'step': float(rng.choice([1.0, 0.5, 6.0, 24.0, 90.0])),
                'start': float(rng.integers(0, 1000)),
                'tzoffset_min': int(rng.choice([0, 0, -300, 330, 540, -30])),
                'aware': bool(rng.random() < 0.6),
                # calendar attribute of the time axis (a no-leap axis drifts
                # from the real calendar after 29 February)
                'calendar': str(rng.choice(['standard', 'standard', 'none',
                                            'noleap', '365_day'])),
                'method': str(rng.choice(['nearest', 'exact', 'bounds']))}
    n = int(rng.integers(2, 13)) if rng.random() < 0.8 else \
        int(rng.integers(13, 41))    # long axes take other numpy code paths
    return {
        'mode': 'val', 'n': n,
        'dir': str(rng.choice(['asc', 'desc'])),
        'uniform': bool(rng.random() < 0.5),
        'seed': int(rng.integers(1 << 30)),
        'bounds': ['none', 'edges1d', 'nx2', 'attr', 'bnds'][idx % 5],
        'method': ['nearest', 'bounds', 'exact'][(idx // 5) % 3],
        'clean': str(rng.choice(['none', 'mask'])),
        'boundsopt': str(rng.choice(['ignore', 'warn', 'error'])),
        'nanlr': bool(rng.random() < 0.5),
        # nan given for one side only (the other keeps its default)
        'nanside': str(rng.choice(['both', 'both', 'left', 'right'])),
        # the queries arrive as a float32 array (values read from an f4
        # variable of another file)
        'q32': bool(rng.random() < 0.2),
        'int_coord': bool(rng.random() < 0.15),
        # storage type of the coordinate and its bounds
        'cdtype': str(rng.choice(['d', 'd', 'f', 'store-int'])),
        'disk': bool(idx % 7 == 3),
        'twin': bool(rng.random() < 0.4),
    }


def make_coord(spec):
    rng = np.random.default_rng([spec['seed'], 21])
    n = spec['n']
    if spec['uniform']:
        step = float(rng.choice([0.5, 1.0, 2.0, 10.0, 0.25]))
        e = float(rng.integers(-20, 20)) + step * np.arange(n + 1)
    else:
        e = np.cumsum(rng.uniform(0.5, 3.0, n + 1)) + float(
            rng.integers(-20, 20))
    if spec.get('int_coord'):
        e = np.round(e * 4)
        if spec['uniform']:
            e = e[0] + 2 * np.arange(n + 1)
        else:
            e = np.cumsum(np.maximum(2, np.round(np.diff(e, prepend=e[0] - 2))
                                     ) * 2)
    if spec.get('int_coord') and spec['bounds'] == 'none' and \
            spec['seed'] % 2 == 0:
        # integer centres at an ODD spacing (hours 0, 3, 6 ...; levels 1, 2,
        # 3 ...): the cell edges lie on half integers
        k = [1, 3, 5][spec['seed'] // 2 % 3]
        if spec['uniform']:
            e = float(rng.integers(-20, 20)) - k / 2. + k * np.arange(n + 1)
        else:
            # unequal odd steps: the derived edges are mid-points
            st = np.array([[1, 3, 5][int(x)] for x in rng.integers(0, 3, n)])
            cc = float(rng.integers(-20, 20)) + np.concatenate(
                [[0], np.cumsum(st[:-1])])
            mids = (cc[:-1] + cc[1:]) / 2. if n > 1 else np.array([])
            e = np.concatenate([[cc[0] - st[0] / 2.], mids,
                                [cc[-1] + st[-1] / 2.]])
    c = (e[:-1] + e[1:]) / 2.
    if spec.get('int_coord') and spec['bounds'] == 'none' and \
            spec['seed'] % 2 == 0 and not spec['uniform']:
        c = cc
    if cdtype_of(spec) == 'f':
        # values exactly representable in the storage type
        e = e.astype('f4').astype('f8')
        c = c.astype('f4').astype('f8')
    if spec['dir'] == 'desc':
        e = e[::-1].copy()
        c = c[::-1].copy()
    return c, e


def cdtype_of(spec):
    t = spec.get('cdtype', 'd')
    if t == 'store-int':
        # integer storage only for integer-valued coordinates
        return 'i' if spec.get('int_coord') else 'd'
    return t


def build(spec):
    import PseudoNetCDF as pnc
    c, e = make_coord(spec)
    ct = cdtype_of(spec)
    f = pnc.PseudoNetCDFFile()
    n = spec['n']
    f.createDimension('x', n)
    xv = f.createVariable('x', ct, ('x',))
    xv[:] = c
    b = spec['bounds']
    if b == 'edges1d':
        f.createDimension('x_edge', n + 1)
        f.createVariable('x_bounds', ct, ('x_edge',))[:] = e
    elif b in ('nx2', 'attr', 'bnds'):
        f.createDimension('nv', 2)
        name = {'nx2': 'x_bounds', 'attr': 'xedges', 'bnds': 'x_bnds'}[b]
        bv = f.createVariable(name, ct, ('x', 'nv'))
        bv[:, 0] = e[:-1]
        bv[:, 1] = e[1:]
        if b == 'attr':
            xv.bounds = 'xedges'
    return f, c, e


def queries(spec, c, e):
    rng = np.random.default_rng([spec['seed'], 22])
    lo, hi = min(e.min(), c.min()), max(e.max(), c.max())
    span = hi - lo
    q = list(c) + list(e)
    for x in e:
        q += [np.nextafter(x, -np.inf), np.nextafter(x, np.inf)]
    q += list((c[:-1] + c[1:]) / 2.)
    q += list(rng.uniform(lo, hi, 6))
    q += [lo - 0.3 * span, hi + 0.3 * span, lo - 5 * span - 1, hi + 7 * span]
    # the same value asked for more than once (also values that are not on
    # the coordinate and values outside the domain)
    q += q[-4:] + q[-8:-6] + list(rng.choice(np.array(q), 4))
    q = np.array(q, dtype='f8')
    return q[rng.permutation(q.size)]


def cells_for(spec, c, e):
    """(lo, hi) per cell, don't-care zone, domain"""
    n = c.size
    if spec['bounds'] != 'none':
        lo = np.minimum(e[:-1], e[1:])
        hi = np.maximum(e[:-1], e[1:])
        return lo, hi, None, (e.min(), e.max())
    # derived: midpoints; outer half cells
    d = np.diff(c)
    uniform = bool((d / 2 == (d / 2)[0]).all())
    mids = (c[:-1] + c[1:]) / 2.
    first_outer = c[0] - d[0] / 2.
    last_outer = c[-1] + d[-1] / 2.
    ed = np.concatenate([[first_outer], mids, [last_outer]])
    lo = np.minimum(ed[:-1], ed[1:])
    hi = np.maximum(ed[:-1], ed[1:])
    dontcare = None
    if not uniform:
        # outer half cells: value beyond the outer centres
        dontcare = [(min(first_outer, c[0]), max(first_outer, c[0])),
                    (min(last_outer, c[-1]), max(last_outer, c[-1]))]
        dom = (min(c[0], c[-1]), max(c[0], c[-1]))
    else:
        dom = (ed.min(), ed.max())
    return lo, hi, dontcare, dom


def judge(spec, c, e, q, out, warned, raised):
    """list of problems for one batch"""
    problems = []
    method = spec['method']
    n = c.size
    lo, hi, dontcare, dom = cells_for(spec, c, e)
    if method == 'bounds':
        rng_lo, rng_hi = dom
    elif spec['bounds'] != 'none':
        rng_lo, rng_hi = e.min(), e.max()
    else:
        rng_lo, rng_hi = c.min(), c.max()
    outside = (q < rng_lo) | (q > rng_hi)
    in_dc = np.zeros(q.shape, bool)
    if dontcare and method == 'bounds':
        for a, b in dontcare:
            in_dc |= (q >= a) & (q <= b)
        # the don't-care zone may be treated as in or out of range
    strict_out = outside & ~in_dc
    if raised is not None:
        if spec['boundsopt'] == 'error' and (outside | in_dc).any():
            return []
        return ['raised %r although %s' % (
            raised, 'bounds=%s' % spec['boundsopt'])]
    if spec['boundsopt'] == 'error' and strict_out.any():
        problems.append('bounds="error" but no ValueError for out-of-range '
                        'values %s' % q[strict_out][:3])
    if spec['boundsopt'] == 'warn' and strict_out.any() and not warned:
        problems.append('bounds="warn" but no warning for out-of-range '
                        'values %s' % q[strict_out][:3])
    out = np.ma.array(out)
    om = np.ma.getmaskarray(out)
    od = np.ma.getdata(out)
    if out.shape != q.shape:
        return problems + ['result shape %s for %s queries' % (out.shape,
                                                               q.shape)]
    side = spec.get('nanside', 'both') if spec['nanlr'] else None
    mask_both = spec['clean'] == 'mask' and side == 'both'
    must_mask_out = mask_both
    # left/right=nan without clean='mask' asks for nan cast to an integer:
    # whatever comes out beyond the interpolation range was requested
    nan_garbage = spec['nanlr'] and spec['clean'] == 'none'
    span = float(max(e.max(), c.max()) - min(e.min(), c.min()))
    alledges = np.concatenate([lo, hi])

    # edges the library derives from float32-stored centres are defined only
    # up to float32 rounding
    eps_ = np.finfo('f4').eps if (spec.get('cdtype') == 'f' and
                                  spec['bounds'] == 'none') else \
        np.finfo('f8').eps

    def near_edge(v):
        tol = 16 * eps_ * max(abs(v), span, 1.0)
        return bool((np.abs(alledges - v) <= tol).any())
    for j, v in enumerate(q):
        if method == 'exact':
            hit = np.nonzero(c == v)[0]
            if hit.size:
                if om[j] or od[j] != hit[0]:
                    problems.append('exact: value %r is centre %d, got %s'
                                    % (v, hit[0], out[j]))
            elif not om[j]:
                problems.append('exact: value %r equals no centre but got '
                                'index %s unmasked' % (v, out[j]))
            continue
        if strict_out[j]:
            if spec['clean'] == 'mask' and side in ('left', 'right'):
                # nan asked for one side only: values beyond THAT side of
                # the domain come back masked
                below = v < rng_lo
                if ((side == 'left' and below) or
                        (side == 'right' and not below)) and not om[j]:
                    problems.append('%s: out-of-range %r not masked with '
                                    'clean=mask,%s=nan (got %s)'
                                    % (method, v, side, out[j]))
                continue
            if must_mask_out and not om[j]:
                problems.append('%s: out-of-range %r not masked with '
                                'clean=mask,left/right=nan (got %s)'
                                % (method, v, out[j]))
            continue
        if in_dc[j] and outside[j]:
            continue
        if nan_garbage and (v < c.min() or v > c.max() or outside[j]):
            continue
        if method == 'nearest':
            dist = np.abs(c - v)
            best = np.nonzero(dist == dist.min())[0]
            if om[j]:
                # in-range for the stated domain but nan from interp beyond
                # the outer centres when left/right=nan: only acceptable
                # outside [c.min, c.max]
                if must_mask_out and (v < c.min() or v > c.max()):
                    continue
                if spec['clean'] == 'mask' and (
                        (side == 'left' and v < c.min()) or
                        (side == 'right' and v > c.max())):
                    continue
                problems.append('nearest: in-range %r masked' % (v,))
            elif od[j] not in best:
                # exact midpoint ties via rounding: accept both neighbours
                near = np.nonzero(np.isclose(dist, dist.min(), rtol=0,
                                             atol=1e-12 * max(1, abs(v))))[0]
                if od[j] not in near:
                    problems.append('nearest: value %r -> %s, closest '
                                    'centre(s) %s' % (v, out[j],
                                                      best.tolist()))
        else:
            ok = np.nonzero((lo <= v) & (v <= hi))[0]
            if in_dc[j] and not ok.size:
                continue
            if om[j]:
                if in_dc[j]:
                    continue
                problems.append('bounds: in-range %r masked' % (v,))
            elif od[j] not in ok:
                if in_dc[j]:
                    continue
                if near_edge(v) and ok.size and \
                        abs(int(od[j]) - int(ok[0])) <= 1:
                    continue    # within rounding of an interior edge
                problems.append('bounds: value %r -> cell %s, containing '
                                'cell(s) %s' % (v, out[j], ok.tolist()))
    return problems


_state = {}


def _post(self, dim, val, result):
    """icontract postcondition on PseudoNetCDFFile.val2idx"""
    st = _state.get('cur')
    if st is None or st.get('done'):
        return True
    st['done'] = True
    st['result'] = result
    return True


_installed = False


def install():
    global _installed
    if _installed:
        return
    import PseudoNetCDF.core._files as F
    F.PseudoNetCDFFile.val2idx = icontract.ensure(
        _post, error=PostBroken)(F.PseudoNetCDFFile.val2idx)
    _installed = True


def marginal(spec, c, e, f, kw, res):
    """The out-of-range decision is taken per batch, and every generated
    batch holds values far outside.  Here: batches whose ONLY out-of-range
    value is the nearest representable number beyond the domain (float64, and
    float32 for float32 query arrays) must be reported; batches that touch
    the outer edges from inside must not."""
    lo, hi, dontcare, dom = cells_for(spec, c, e)
    if spec.get('cdtype') == 'f' and spec['bounds'] == 'none':
        return []      # derived edges known up to float32 rounding only
    if spec['method'] == 'bounds':
        rlo, rhi = dom
    elif spec['bounds'] != 'none':
        rlo, rhi = e.min(), e.max()
    else:
        rlo, rhi = c.min(), c.max()
    slo, shi = rlo, rhi
    if dontcare and spec['method'] == 'bounds':
        slo = min([slo] + [a for a, _ in dontcare])
        shi = max([shi] + [b for _, b in dontcare])
    qt = 'f4' if spec.get('q32') else 'f8'
    inside = np.array(c, qt)
    inside = inside[(inside.astype('f8') >= rlo) &
                    (inside.astype('f8') <= rhi)]

    def beyond(x, d):
        y = np.array(x, qt)
        while (y >= x if d < 0 else y <= x):
            y = np.nextafter(y, np.array(d * np.inf, qt))
        return y

    def within(x, d):
        # nearest representable value at or inside the limit
        y = np.array(x, qt)
        while (y < x if d < 0 else y > x):
            y = np.nextafter(y, np.array(-d * np.inf, qt))
        return y
    problems = []
    batches = [('just below the domain', beyond(slo, -1), True),
               ('just above the domain', beyond(shi, +1), True),
               ('on the lowest edge', within(rlo, -1), False),
               ('on the highest edge', within(rhi, +1), False)]
    for what, v, isout in batches:
        qb = np.append(inside, v).astype(qt)
        harness.WARN_LOG.clear()
        try:
            f.val2idx('x', qb.copy(), **kw)
            r = None
        except ValueError as ex:
            r = ex
        except Exception as ex:
            problems.append('batch with one value %s (%r) raised %r'
                            % (what, float(v), ex))
            continue
        res.hook('val2idx.marginal')
        warned = any('out of bounds' in m for _, m in harness.WARN_LOG)
        told = (r is not None) if spec['boundsopt'] == 'error' else warned
        if isout and not told:
            problems.append('bounds=%r: a %s batch whose only out-of-range '
                            'value is %r (%s, domain %r..%r) was accepted '
                            'silently' % (spec['boundsopt'], qt, float(v),
                                          what, float(slo), float(shi)))
        elif not isout and (r is not None or warned):
            problems.append('bounds=%r: a %s batch of in-range values with '
                            '%r %s (domain %r..%r) was reported as out of '
                            'bounds' % (spec['boundsopt'], qt, float(v),
                                        what, float(rlo), float(rhi)))
    return problems


def run_val(spec, res):
    with harness.casedir() as d, harness.handles() as h:
        run_val_in(spec, res, d, h)


def run_val_in(spec, res, d, h):
    install()
    f, c, e = build(spec)
    if spec.get('disk'):
        # the coordinate file saved and opened again from disk
        g = harness.to_disk(f, d, h, res=res)
        if g is not None:
            f = g
            res.facet('source:disk')
    q = queries(spec, c, e)
    kw = dict(method=spec['method'], clean=spec['clean'],
              bounds=spec['boundsopt'])
    if spec['nanlr']:
        if spec.get('nanside', 'both') in ('both', 'left'):
            kw['left'] = np.nan
        if spec.get('nanside', 'both') in ('both', 'right'):
            kw['right'] = np.nan
    qin = q.copy()
    if spec.get('q32'):
        # the oracle judges the values the float32 array actually holds
        qin = q.astype('f4')
        q = qin.astype('f8')
        res.facet('queries:float32')
    harness.WARN_LOG.clear()
    _state['cur'] = st = {}
    raised = None
    try:
        out = f.val2idx('x', qin.copy(), **kw)
    except Exception as ex:
        raised = ex
        out = None
    if st.get('done') or raised is not None:
        res.hook('val2idx.contract')
    _state['cur'] = None
    twin = None
    if spec.get('twin') and raised is None and out is not None and \
            not spec.get('disk'):
        # a second coordinate in the same file: the same geometry scaled by
        # two (exact in binary), with bounds under the default name and no
        # bounds attribute.  Looked up AFTER x it must give the same cells.
        try:
            ct = cdtype_of(spec)
            n_ = spec['n']
            f.createDimension('y', n_)
            f.createVariable('y', ct, ('y',))[:] = c * 2
            if spec['bounds'] == 'edges1d':
                f.createDimension('y_edge', n_ + 1)
                f.createVariable('y_bounds', ct, ('y_edge',))[:] = e * 2
            elif spec['bounds'] != 'none':
                if 'nv' not in f.dimensions:
                    f.createDimension('nv', 2)
                yb = f.createVariable('y_bounds', ct, ('y', 'nv'))
                yb[:, 0] = e[:-1] * 2
                yb[:, 1] = e[1:] * 2
            harness.WARN_LOG.clear()
            twin = f.val2idx('y', q * 2, **kw)
            res.hook('val2idx.twin')
        except Exception as ex:
            twin = ex
    warned = any('out of bounds' in m for _, m in harness.WARN_LOG)
    lo, hi = (e.min(), e.max())
    nontriv = bool(((q < lo) | (q > hi)).any() and
                   ((q >= lo) & (q <= hi)).any())
    facets = ['method:' + spec['method'], 'bounds:' + spec['bounds'],
              'dir:' + spec['dir'], 'clean:' + spec['clean'],
              'opt:' + spec['boundsopt'],
              'uniform' if spec['uniform'] else 'nonuniform',
              'stored:' + cdtype_of(spec)]
    res.ev(digest(spec), nontriv, facets)
    problems = judge(spec, c, e, q, out, warned, raised)
    if twin is not None and not problems:
        if isinstance(twin, Exception):
            problems.append('the same lookup on a second coordinate of the '
                            'file (same geometry x 2) raised %r' % (twin,))
        else:
            a, b = np.ma.array(out), np.ma.array(twin)
            if a.shape != b.shape or not np.array_equal(
                    np.ma.getmaskarray(a), np.ma.getmaskarray(b)) or \
                    not np.array_equal(a.filled(-9), b.filled(-9)):
                j = int(np.argmax(np.ma.getmaskarray(a) != np.ma.getmaskarray(
                    b))) if a.shape == b.shape else 0
                problems.append(
                    'a second coordinate of the same file with the same '
                    'geometry (scaled by 2, bounds under the default name) '
                    'looked up after x gives other cells: e.g. query %r -> '
                    '%s, x gave %s' % (
                        q[j] * 2, b.tolist()[j] if b.shape else b,
                        a.tolist()[j] if a.shape else a))
    if not problems and spec['boundsopt'] in ('warn', 'error') and \
            spec['method'] != 'exact':
        problems += marginal(spec, c, e, f, kw, res)
    if not problems and raised is None and out is not None and \
            not spec.get('disk') and spec['seed'] % 4 == 1:
        # the coordinate (and its bounds) is edited in place - rescaled by
        # two, which is exact in binary - and looked up again on the same
        # file object: the same cells, for the rescaled queries
        try:
            for vk in list(f.variables.keys()):
                if vk in ('x', 'x_bounds', 'x_bnds', 'xedges'):
                    vv = f.variables[vk]
                    vv[...] = np.ma.getdata(vv[...]) * 2
            harness.WARN_LOG.clear()
            again = f.val2idx('x', q * 2, **kw)
            res.hook('val2idx.after-edit')
            a, b = np.ma.array(out), np.ma.array(again)
            if a.shape != b.shape or not np.array_equal(
                    np.ma.getmaskarray(a), np.ma.getmaskarray(b)) or \
                    not np.array_equal(a.filled(-9), b.filled(-9)):
                j = int(np.argmax((np.ma.getmaskarray(a) !=
                                   np.ma.getmaskarray(b)) |
                                  (a.filled(-9) != b.filled(-9)))) \
                    if a.shape == b.shape else 0
                problems.append(
                    'after the coordinate was rescaled in place (x 2), the '
                    'same lookup with rescaled queries gives other cells: '
                    'e.g. query %r -> %s, before the edit %r -> %s'
                    % (q[j] * 2, b.tolist()[j] if b.shape else b, q[j],
                       a.tolist()[j] if a.shape else a))
        except Exception as ex:
            problems.append('after the coordinate was rescaled in place, '
                            'the lookup raised %r' % (ex,))
    if problems:
        res.viol('wrong-index:%s:%s' % (spec['method'], spec['dir']),
                 'coordinate %s (%s, bounds=%s), val2idx(%s): %s'
                 % (np.round(c, 4).tolist(), spec['dir'], spec['bounds'], kw,
                    '; '.join(problems[:4])),
                 method=spec['method'], dir=spec['dir'],
                 bounds=spec['bounds'], nproblems=len(problems),
                 exc=type(raised).__name__ if raised else None)


def run_time(spec, res):
    import PseudoNetCDF as pnc
    import cftime
    f = pnc.PseudoNetCDFFile()
    n = spec['n']
    f.createDimension('time', n)
    tv = f.createVariable('time', 'd', ('time',))
    tv.units = spec['units']
    vals = spec['start'] + spec['step'] * np.arange(n)
    tv[:] = vals
    cal = spec.get('calendar', 'standard')
    if cal != 'none':
        tv.calendar = cal
    if cal in ('noleap', '365_day'):
        # every no-leap date is also a real date
        ref = cftime.num2date(vals, spec['units'], cal,
                              only_use_cftime_datetimes=True)
    else:
        ref = cftime.num2date(vals, spec['units'], 'standard',
                              only_use_cftime_datetimes=False,
                              only_use_python_datetimes=True)
    times = np.array([datetime.datetime(t.year, t.month, t.day, t.hour,
                                        t.minute, t.second, t.microsecond)
                      for t in ref])
    if spec.get('aware'):
        # the same instants expressed in another time zone
        tz = datetime.timezone(datetime.timedelta(
            minutes=spec.get('tzoffset_min', 0)))
        times = np.array([t.replace(tzinfo=datetime.timezone.utc)
                          .astimezone(tz) for t in times])
    problems = []
    try:
        idx = f.time2idx(times, method=spec['method'], bounds='ignore')
        res.hook('time2idx.return')
        got = np.ma.array(idx)
        if np.ma.getmaskarray(got).any() or not np.array_equal(
                np.ma.getdata(got), np.arange(n)):
            problems.append('time2idx(own times, %s) = %s, expected 0..%d'
                            % (spec['method'], got.tolist(), n - 1))
    except Exception as ex:
        res.hook('time2idx.return')
        problems.append('time2idx raised %r' % (ex,))
    res.ev(digest(spec), n >= 2, ['time2idx', 'method:' + spec['method'],
                                  'calendar:' + cal,
                                  'tz:%s' % (spec.get('tzoffset_min', 0)
                                             if spec.get('aware')
                                             else 'naive')])
    if problems:
        res.viol('wrong-time-index:' + spec['method'],
                 '; '.join(problems), method=spec['method'])


def run_reader(spec, res):
    """lookups on the coordinate variables of the object a reader returns,
    with the bounds variables the reader itself built"""
    from .. import readerfiles
    install()
    rdr = spec['reader']
    with harness.casedir() as d:
        f, status = readerfiles.open_reader(rdr, d)
        res.facet('reader:%s:%s' % (rdr['kind'], status.split(':')[0]))
        if f is None:
            res.note('reader-gave-no-file:' + status)
            return
        judged = 0
        for dk in list(f.dimensions.keys()):
            if dk not in f.variables or dk == 'time':
                continue
            v = f.variables[dk]
            if tuple(v.dimensions) != (dk,) or len(f.dimensions[dk]) < 2 or \
                    np.dtype(v.dtype).kind not in 'fiu':
                continue
            c = np.asarray(v[...], 'f8')
            dif = np.diff(c)
            if not ((dif > 0).all() or (dif < 0).all()):
                continue
            n = c.size
            e = None
            bk = getattr(v, 'bounds', None)
            for cand in (bk, dk + '_bounds', dk + '_bnds'):
                if cand and cand in f.variables:
                    b = np.asarray(f.variables[cand][...], 'f8')
                    if b.shape == (n, 2) and np.array_equal(b[:-1, 1],
                                                            b[1:, 0]):
                        e = np.append(b[:, 0], b[-1, 1])
                    elif b.shape == (n + 1,):
                        e = b
                    break
            ps = dict(spec, bounds='nx2' if e is not None else 'none',
                      dir='asc' if dif[0] > 0 else 'desc',
                      uniform=bool(np.allclose(dif, dif[0])))
            if e is None:
                mids = (c[:-1] + c[1:]) / 2.
                e_ = np.concatenate([[c[0] - dif[0] / 2.], mids,
                                     [c[-1] + dif[-1] / 2.]])
            else:
                e_ = e
                if not (np.minimum(e_[:-1], e_[1:]) <= c).all() or \
                        not (c <= np.maximum(e_[:-1], e_[1:])).all():
                    res.note('reader-bounds-do-not-contain-centres:' + dk)
                    continue
            q = queries(ps, c, e_)
            if e is None and np.dtype(v.dtype) == np.dtype('f4'):
                # edges derived from float32 centres are defined only up to
                # float32 rounding (0.95f + 0.05f is 1.0f, not 0.99999997):
                # queries that close to a derived edge have no single answer
                tol = 8 * np.finfo('f4').eps * max(np.abs(e_).max(), 1e-30)
                q = q[np.abs(q[:, None] - e_[None, :]).min(1) > tol]
            kw = dict(method=spec['method'], clean=spec['clean'],
                      bounds=spec['boundsopt'])
            if spec['nanlr']:
                kw['left'] = np.nan
                kw['right'] = np.nan
            harness.WARN_LOG.clear()
            _state['cur'] = st = {}
            raised = None
            try:
                out = f.val2idx(dk, q.copy(), **kw)
            except Exception as ex:
                raised, out = ex, None
            if st.get('done') or raised is not None:
                res.hook('val2idx.contract')
            _state['cur'] = None
            warned = any('out of bounds' in m for _, m in harness.WARN_LOG)
            judged += 1
            res.facet('reader-coordinate:%s:%s' % (rdr['kind'], dk))
            problems = judge(ps, c, e_, q, out, warned, raised)
            if problems:
                res.viol('wrong-index:%s:%s' % (spec['method'], ps['dir']),
                         '%s file, coordinate %s = %s (bounds=%s), '
                         'val2idx(%s): %s'
                         % (rdr['kind'], dk, np.round(c, 4).tolist()[:8],
                            ps['bounds'], kw, '; '.join(problems[:4])),
                         method=spec['method'], dir=ps['dir'],
                         bounds=ps['bounds'], nproblems=len(problems),
                         exc=type(raised).__name__ if raised else None,
                         reader=rdr['kind'], coord=dk)
        res.ev(digest(spec), judged > 0,
               ['mode:reader', 'method:' + spec['method']])


def run(spec, res):
    if spec['mode'] == 'reader':
        return run_reader(spec, res)
    if spec['mode'] == 'time':
        run_time(spec, res)
    else:
        run_val(spec, res)
