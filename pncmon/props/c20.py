"""C20 -- ARL packed-bit packing error is bounded and unpack inverts pack.

Monitors: icontract postcondition on the real pack2d (error bound, first
element, checksum, byte identity with the serial PAKOUT reference), a local
tracer on pack2d's code object that observes every ICVAL before the cast to
uint8 (direct observation of "no byte wrap-around"), and file-level checks of
arlpackedbit / writearlpackedbit against the reference codec."""
import os
import sys

import icontract
import numpy as np

from .. import harness, refarl
from ..cli import digest

PROP = 'C20'
LEVEL = 'exploration'
RULE = ('fields: shapes (2-14) x (2-18) [some up to 40 x 60], magnitudes '
        '1e-30..1e30, constant fields, smooth fields, random fields, and '
        'ADVERSARIAL fields whose largest neighbour difference is '
        '2^k (1 - eps) for eps in {0, 1 ulp, 1e-7..1e-2} with alternating '
        'signs (maximises accumulated reconstruction error); files: '
        'reference-encoded multi-time multi-level lat/lon ARL files read by '
        'arlpackedbit, and written back by writearlpackedbit and decoded by '
        'the reference decoder. non-trivial = field is not constant; '
        'distinct = digest of the spec.')
RULE += (' Also: variables present only at upper levels, grids with NX or NY above 999 (letter-coded grid numbers), a second ARL file with another variable table opened before the first is read; a read that raises is a finding of the case.')
RULE += (' Forecast files: the labels carry non-zero forecast hours (YYMMDDHH stays the valid time).')
ASSUMPTIONS = [
    'bound: |unpack(pack(x)) - x| <= 2**(NEXP-7) element-wise (float32 '
    'arithmetic slack of 4 ulp of the largest magnitude)',
    'checksum: recorded KSUM is congruent to the byte sum modulo 255 (the '
    'rotating PAKOUT checksum)',
    'projected ARL grids need pyproj (not installed): only lat/lon grids are '
    'driven at file level',
    'file-level values are compared with the reference decoder\'s values of '
    'the same bytes, so E14.7 text rounding of VAR1 does not enter',
]
HOOKS = ['pack2d.contract', 'pack2d.icval-trace', 'unpack.return',
         'arlpackedbit.return', 'writearlpackedbit.return']
TECHNIQUE = ('runtime contract on the real pack2d/unpack + local-variable '
             'tracer (sys.monitoring LINE events on one code object) + '
             'file-level reference codec')
MIN_DISTINCT = {'quick': 1000, 'thorough': 20000}
NF = {'quick': 3000, 'thorough': 80000}
NFILES = {'quick': 40, 'thorough': 800}
JOBS = {'quick': 8}


class PackBroken(Exception):
    pass


def ncases(tier):
    return NF[tier] + NFILES[tier]


def gen(rng, idx, tier, seed):
    if idx >= NF[tier]:
        s = refarl.gen_spec(rng)
        s['mode'] = 'file'
        s['decoy_seed'] = int(rng.integers(1 << 30)) if rng.random() < 0.4 \
            else None
        return s
    kind = ['random', 'smooth', 'adversarial', 'adversarial', 'constant',
            'steps'][idx % 6]
    if idx % 30 == 17:
        # a field held in a narrow integer type (category maps, counts,
        # packed satellite fields): large swings up and down
        ny = int(rng.integers(2, 12))
        nx = int(rng.integers(2, 16))
        return {'mode': 'field', 'kind': 'integer', 'ny': ny, 'nx': nx,
                'mag': 1.0, 'seed': int(rng.integers(1 << 30)),
                'itype': str(rng.choice(['u1', 'i1', 'i2', 'u2']))}
    big = rng.random() < 0.03
    ny = int(rng.integers(2, 41 if big else 15))
    nx = int(rng.integers(2, 61 if big else 19))
    mag = float(10.0 ** rng.integers(-30, 31)) if rng.random() < 0.5 else \
        float(rng.choice([1.0, 300.0, 1e5, 1e-3]))
    spec = {'mode': 'field', 'kind': kind, 'ny': ny, 'nx': nx, 'mag': mag,
            'seed': int(rng.integers(1 << 30))}
    if kind == 'adversarial':
        spec['k'] = int(rng.integers(-6, 12))
        spec['eps'] = float(rng.choice([0.0, -1.0, 1e-7, 1e-6, 1e-5, 1e-4,
                                        1e-3, 1e-2]))
        spec['pattern'] = str(rng.choice(['alternate', 'alternate-rows',
                                          'sawtooth', 'random-sign']))
    return spec


def make_field(spec):
    rng = np.random.default_rng([spec['seed'], 41])
    ny, nx = spec['ny'], spec['nx']
    kind = spec['kind']
    if kind == 'integer':
        info = np.iinfo(spec['itype'])
        f = rng.integers(info.min, int(info.max) + 1, (ny, nx))
        # saw-tooth rows: swings of nearly the whole range, both ways
        f[:, ::2] = info.max - rng.integers(0, 6, f[:, ::2].shape)
        f[:, 1::2] = info.min + rng.integers(0, 6, f[:, 1::2].shape)
        return f.astype(spec['itype'])
    if kind == 'constant':
        return np.full((ny, nx), spec['mag'] * (1 if rng.random() < .5 else
                                                -1), 'f4')
    if kind == 'random':
        return (rng.normal(0, 1, (ny, nx)) * spec['mag']).astype('f4')
    if kind == 'smooth':
        yy, xx = np.mgrid[0:ny, 0:nx]
        return (spec['mag'] * (1 + 0.1 * np.sin(xx / 3.) * np.cos(yy / 2.))
                ).astype('f4')
    if kind == 'steps':
        return (np.round(rng.normal(0, 3, (ny, nx))) * spec['mag']
                ).astype('f4')
    # adversarial: neighbour differences of size d = 2^k (1 - eps)
    d = np.float32(2.0 ** spec['k'])
    if spec['eps'] < 0:
        d = np.nextafter(d, np.float32(0))
    else:
        d = np.float32(d * (1 - spec['eps']))
    f = np.zeros((ny, nx), 'f4')
    pat = spec['pattern']
    for j in range(ny):
        for i in range(nx):
            if pat == 'alternate':
                s = (i + j) % 2
            elif pat == 'alternate-rows':
                s = i % 2 if j % 2 == 0 else (i + 1) % 2
            elif pat == 'sawtooth':
                s = (i % 3) / 2.0
            else:
                s = float(rng.random() < 0.5)
            f[j, i] = np.float32(s) * d
    # small jitter below the quantisation step keeps differences <= d
    f += (rng.random((ny, nx)) * d * 1e-3).astype('f4') * (
        1 if rng.random() < 0.5 else 0)
    return f.astype('f4')


# ---------------------------------------------------------------------------
_trace = {'lo': None, 'hi': None, 'n': 0, 'code': None, 'on': False}
TOOL = 4


def _line(code, lineno):
    fr = sys._getframe(1)
    v = fr.f_locals.get('ICVAL')
    if v is not None:
        a = np.asarray(v)
        lo, hi = int(a.min()), int(a.max())
        _trace['n'] += 1
        _trace['lo'] = lo if _trace['lo'] is None else min(_trace['lo'], lo)
        _trace['hi'] = hi if _trace['hi'] is None else max(_trace['hi'], hi)


def trace_on(func):
    mon = sys.monitoring
    if not _trace['on']:
        try:
            mon.use_tool_id(TOOL, 'pncmon-icval')
        except ValueError:
            pass
        mon.register_callback(TOOL, mon.events.LINE, _line)
        _trace['code'] = func.__code__
        mon.set_local_events(TOOL, func.__code__, mon.events.LINE)
        _trace['on'] = True
    _trace['lo'] = _trace['hi'] = None
    _trace['n'] = 0


_state = {}


def _post_pack(RVARA, result):
    st = _state.get('cur')
    if st is not None:
        st['result'] = result
        st['calls'] = st.get('calls', 0) + 1
    return True


_installed = {}


def install():
    import PseudoNetCDF.noaafiles._arl as A
    if 'orig' not in _installed:
        _installed['orig'] = A.pack2d
        # the tracer watches the ORIGINAL code object; the contract wraps it
        A.pack2d = icontract.ensure(_post_pack, error=PackBroken)(A.pack2d)
    return A


def judge_field(A, f, spec, res):
    problems = []
    trace_on(_installed['orig'])
    _state['cur'] = st = {}
    try:
        CVAR, PREC, NEXP, VAR1, KSUM = A.pack2d(f)
    except Exception as e:
        _state['cur'] = None
        res.hook('pack2d.contract')
        return ['pack2d raised %r' % (e,)], None
    _state['cur'] = None
    if st.get('calls'):
        res.hook('pack2d.contract')
    if _trace['n']:
        res.hook('pack2d.icval-trace', _trace['n'])
        if _trace['lo'] < 0 or _trace['hi'] > 255:
            problems.append('byte wrap-around: ICVAL ranges over [%d, %d] '
                            'before the cast to uint8' % (_trace['lo'],
                                                          _trace['hi']))
    cb = np.frombuffer(np.asarray(CVAR).tobytes(), 'u1').reshape(f.shape)
    nexp = int(NEXP)
    _state['last_nexp'] = nexp
    step = 2.0 ** (nexp - 7)
    try:
        back = A.unpack(np.asarray(CVAR)[None], np.array([VAR1], 'f4'),
                        np.array([nexp], 'i4'))[0]
        res.hook('unpack.return')
    except Exception as e:
        res.hook('unpack.return')
        return problems + ['unpack raised %r' % (e,)], None
    slack = 4 * np.finfo('f4').eps * max(float(np.abs(f).max()), step)
    err = np.abs(back.astype('f8') - f.astype('f8'))
    worst = float(err.max())
    if worst > step + slack:
        j = np.unravel_index(int(np.argmax(err)), f.shape)
        problems.append('|unpack(pack(x)) - x| = %.6g = %.3f quantisation '
                        'steps (2**(NEXP-7) = %.6g, NEXP=%d) at %s'
                        % (worst, worst / step, step, nexp, j))
    if float(back[0, 0]) != float(f[0, 0]) and abs(
            float(back[0, 0]) - float(f[0, 0])) > step + slack:
        problems.append('first element %r -> %r' % (f[0, 0], back[0, 0]))
    if np.float32(VAR1) != f[0, 0]:
        problems.append('VAR1 %r is not the first element %r' % (VAR1,
                                                                 f[0, 0]))
    if int(KSUM) % 255 != int(cb.astype('i8').sum()) % 255:
        problems.append('checksum %d is not congruent to the byte sum %d '
                        '(mod 255)' % (int(KSUM), int(cb.sum())))
    # serial PAKOUT reference (bit identity) for moderate sizes
    if f.size <= 300:
        rc, rprec, rnexp, rvar1, rksum, mm = refarl.pakout(f)
        if rnexp != nexp:
            problems.append('exponent %d, serial PAKOUT says %d' % (nexp,
                                                                    rnexp))
        elif not np.array_equal(rc, cb):
            if mm[0] >= 0 and mm[1] <= 255:
                n = int((rc != cb).sum())
                problems.append('%d packed bytes differ from the serial '
                                'PAKOUT reference' % n)
        if abs(float(rprec) - float(PREC)) > 1e-6 * abs(float(rprec)):
            problems.append('PREC %r, reference %r' % (PREC, rprec))
    return problems, worst / step


def run_field(spec, res):
    A = install()
    f = make_field(spec)
    problems, ratio = judge_field(A, f, spec, res)
    facets = ['kind:' + spec['kind']]
    # headroom: largest neighbour difference (PAKOUT order) relative to
    # 2**NEXP; the byte range holds -127..+128 steps of 2**(NEXP-7)
    headroom = None
    if ratio is not None:
        r = f.astype('f8')
        rmax = max(np.abs(np.diff(r, axis=1)).max() if r.shape[1] > 1 else 0,
                   np.abs(np.diff(np.append(r[0, 0], r[:, 0]))).max())
        st = _state.get('last_nexp')
        if st is not None and rmax > 0:
            headroom = float(rmax / 2.0 ** st)
    if ratio is not None:
        facets.append('err<=%.1f' % (np.ceil(ratio * 10) / 10) if ratio < 1
                      else 'err>1')
    res.ev(digest(spec), spec['kind'] != 'constant', facets)
    if problems:
        res.viol('pack-law-broken:' + spec['kind'],
                 '%s field %dx%d mag %g%s: %s' % (
                     spec['kind'], spec['ny'], spec['nx'], spec['mag'],
                     (' k=%d eps=%g %s' % (spec['k'], spec['eps'],
                                           spec['pattern']))
                     if spec['kind'] == 'adversarial' else '',
                     '; '.join(problems[:4])),
                 fkind=spec['kind'], problems=problems[:8],
                 eps=spec.get('eps'), pattern=spec.get('pattern'),
                 ratio=ratio, headroom=headroom)


def run_file(spec, res):
    A = install()
    try:
        img, exp = refarl.encode(spec)
    except ValueError:
        res.note('skipped:index-record-does-not-fit-the-grid')
        return
    problems = []
    with harness.casedir() as d:
        path = os.path.join(d, 'ref.arl')
        with open(path, 'wb') as fh:
            fh.write(img)
        try:
            f = A.arlpackedbit(path)
            res.hook('arlpackedbit.return')
        except Exception as e:
            res.hook('arlpackedbit.return')
            res.ev(digest(spec), True, 'file-open-raised')
            lenh = 108 + sum(8 + 8 * len(refarl.level_keys(spec, li))
                             for li in range(len(spec['levels'])))
            res.viol('arl-reader-raised:%s' % type(e).__name__,
                     'arlpackedbit on a reference file (nx=%d ny=%d, %d '
                     'levels, LENH=%d) raised %r' % (
                         spec['nx'], spec['ny'], len(spec['levels']), lenh,
                         e),
                     nx=spec['nx'], ny=spec['ny'], lenh=lenh,
                     excmsg=str(e)[:200])
            return
        if spec['nx'] > 999 or spec['ny'] > 999:
            res.facet('large-grid')
        if spec.get('decoy_seed') is not None:
            # a second ARL file with another level layout is opened before
            # the variables of the first are read: open files are independent
            try:
                ds = refarl.gen_spec(np.random.default_rng(
                    [spec['decoy_seed'], 9]))
                ds['nx'], ds['ny'] = 22, 18
                ds['levels'] = [1.0, 0.5]
                ds['layextra'] = None
                dimg, _ = refarl.encode(ds)
                dpath = os.path.join(d, 'decoy.arl')
                with open(dpath, 'wb') as fh:
                    fh.write(dimg)
                g = A.arlpackedbit(dpath)
                list(g.variables.keys())
                res.facet('decoy-open')
            except Exception:
                res.note('decoy-open-failed')
        keys = list(f.variables.keys())
        ratios, headrooms = [], []
        allkeys = spec['sfckeys'] + spec['laykeys'] + (
            [spec['layextra']['key']] if spec.get('layextra') else [])
        if spec.get('layextra'):
            res.facet('variable-only-at-upper-levels')
        for k in allkeys:
            if k not in keys:
                problems.append('variable %s not exposed (%s)' % (k, keys))
                continue
            try:
                got = np.asarray(f.variables[k][...], 'f8')
            except Exception as e:
                problems.append('reading %s raised %r' % (k, e))
                continue
            ref = exp['vars'][k].astype('f8')
            if got.shape != ref.shape:
                problems.append('%s shape %s, encoded %s' % (k, got.shape,
                                                             ref.shape))
                continue
            step = 2.0 ** (exp['nexp'][k].astype('f8') - 7)
            step = step.reshape(step.shape + (1, 1))
            err = np.abs(got - exp['orig'][k].astype('f8'))
            if (err > step * (1 + 1e-3) + 1e-6 * np.abs(ref)).any():
                j = np.unravel_index(int(np.argmax(err / step)), err.shape)
                problems.append('%s: read value off by %.3f quantisation '
                                'steps at %s' % (k, float((err / step)[j]),
                                                 j))
                fld = exp['orig'][k][j[:-2]].astype('f8')
                rmax = max(np.abs(np.diff(fld, axis=1)).max(),
                           np.abs(np.diff(np.append(fld[0, 0],
                                                    fld[:, 0]))).max())
                ratios.append(float((err / step)[j]))
                headrooms.append(float(rmax / 2.0 ** float(
                    exp['nexp'][k][j[:-2]])))
            # against the reference decoder of the same bytes: only float32
            # accumulation order may differ
            d2 = np.abs(got - ref)
            tol = 64 * np.finfo('f4').eps * np.abs(ref).max() + step.max() \
                * 1e-3
            if (d2 > tol).any():
                j = np.unravel_index(int(np.argmax(d2)), d2.shape)
                problems.append('%s: read %r, reference decoder %r at %s'
                                % (k, got[j], ref[j], j))
        z = [float(x) for x in np.asarray(f.variables['z'][...])]
        if not np.allclose(z, spec['levels'][1:], atol=1e-4):
            problems.append('levels %s, encoded %s' % (z, spec['levels'][1:]))
        if abs(float(f.SFCVGLVL) - spec['levels'][0]) > 1e-4:
            problems.append('surface level %r' % (f.SFCVGLVL,))
        try:
            tt = [(t.year, t.month, t.day, t.hour) for t in f.getTimes()]
            et = [(t.year, t.month, t.day, t.hour) for t in exp['times']]
            if tt != et:
                problems.append('times %s, encoded %s' % (tt, et))
        except Exception as e:
            problems.append('getTimes raised %r' % (e,))
        # writer -> reference decoder
        out = os.path.join(d, 'out.arl')
        try:
            A.writearlpackedbit(f, out)
            res.hook('writearlpackedbit.return')
            dec = refarl.decode(open(out, 'rb').read())
            if len(dec['steps']) != spec['nt']:
                problems.append('written file has %d steps, expected %d'
                                % (len(dec['steps']), spec['nt']))
            for t, stp in enumerate(dec['steps'][:spec['nt']]):
                for fld in stp['fields']:
                    k, li = fld['key'], fld['level']
                    src = np.asarray(f.variables[k][...], 'f8')
                    src = src[t] if li == 0 else src[t, li - 1]
                    step = 2.0 ** (fld['nexp'] - 7)
                    err = np.abs(fld['data'] - src).max()
                    if err > step * (1 + 1e-3) + 1e-5 * np.abs(src).max():
                        problems.append('written %s level %d: decoded value '
                                        'off by %.3f steps' % (k, li,
                                                               err / step))
                    if fld['checksum'] % 255 != int(
                            fld['cvar'].astype('i8').sum()) % 255:
                        problems.append('written %s level %d: index '
                                        'checksum %d vs byte sum %d'
                                        % (k, li, fld['checksum'],
                                           int(fld['cvar'].sum())))
        except Exception as e:
            # the writer is not part of the property's statement (which
            # speaks of packing and of READING files): observed, not judged
            res.hook('writearlpackedbit.return')
            res.note('writearlpackedbit-raised:%s' % type(e).__name__)
    res.ev(digest(spec), True, ['file', 'nt:%d' % spec['nt']])
    if problems:
        res.viol('arl-file-law-broken', '; '.join(problems[:5]),
                 problems=problems[:10], nx=spec['nx'], ny=spec['ny'],
                 ratios=ratios, headrooms=headrooms)


def run(spec, res):
    if spec['mode'] == 'file':
        run_file(spec, res)
    else:
        run_field(spec, res)
