"""C11 -- IOAPI subsetting preserves geo- and time-referencing.

Monitor: call/return of ioapi_base.sliceDimensions with contiguous windows;
oracle: origin + first-index * cell size, matching VGLVLS sub-range, and the
same sub-range of the integer-calendar instants."""
import numpy as np

from .. import gen_ioapi
from ..cli import digest
from .c12 import as_utc_tuple

PROP = 'C11'
LEVEL = 'exploration'
RULE = ('random gridded IOAPI files (negative origins, non-square cells, '
        '1-5 layers with random sigma edges, start times across midnight / '
        '31 Dec / 29 Feb, steps 1 s .. 24 h) x contiguous windows given as '
        'positive/negative integers or unit-stride slices (open-ended, '
        'touching either edge, full, single cell) alone and combined over '
        'ROW, COL, LAY, TSTEP in shuffled keyword order; one source in five '
        'carries its time metadata in SDATE/STIME/TSTEP only (no TFLAG '
        'variable). non-trivial = the '
        'window drops at least one cell/layer/step; distinct = digest of '
        'the spec.')
RULE += (' Windows are also given as numpy integers; sources also written to disk and reopened.')
RULE += (' A share of the gridded files is the IOAPI-class object the CAMx gridded READER (uamiv) returns for an image written by the independent codec (whole-hour steps up to 168 h, ETFLAG present, header completed by the class).')
RULE += (' After a time window the same source object is re-dated (flags and start edited consistently) and windowed again: the second window is referenced to the new times.')
RULE += (" Half of the IOAPI files opened from disk are written here with netCDF4 directly the way the Models-3 I/O API library writes them (netCDF classic 64-bit offset, int32 header integers, float64 grid reals, float32 VGLVLS, TFLAG first, TSTEP the record dimension), independent of the library's writers.")
RULE += (' Windows also start further back than the axis is long and stop beyond its end (python slice semantics: clamped).')
ASSUMPTIONS = [
    'time oracle = integer YYYYJJJ/HHMMSS arithmetic in the harness (not '
    'getTimes)',
    'XORIG/YORIG are compared with 1e-9 relative tolerance (float64 '
    'attributes), VGLVLS bit-exactly (float32 sub-range)',
    'when a single time step is retained TSTEP is not demanded (no step is '
    'observable)',
]
HOOKS = ['sliceDimensions.return', 'oracle.compare']
MIN_DISTINCT = {'quick': 800, 'thorough': 10000}
N = {'quick': 2000, 'thorough': 40000}


def ncases(tier):
    return N[tier]


def gen_window(rng, n):
    r = rng.random()
    if r < 0.3:
        return {'i': int(rng.integers(-n, n))}
    a = int(rng.integers(0, n))
    b = int(rng.integers(a + 1, n + 1))
    form = int(rng.integers(8))
    if form == 0:
        s = [a, b, None]
    elif form == 1:
        s = [None, b, None]
    elif form == 2:
        s = [a, None, 1]
    elif form == 3:
        s = [None, None, None]
    elif form == 4:
        s = [a - n, b if b < n else None, None]     # negative start
    elif form == 5:
        s = [a, a + 1, 1]
    elif form == 6:
        # a start further back than the axis is long (clamped to the first
        # cell, as for any python sequence)
        s = [-(n + 1 + int(rng.integers(0, 100))), b, None]
    else:
        # a stop beyond the end
        s = [a, n + 1 + int(rng.integers(0, 100)), None]
    return {'s': s}


def gen(rng, idx, tier, seed):
    fs = gen_ioapi.gen_spec(rng, kind='grid', maxn=5)
    dims = {'TSTEP': fs['nt'], 'LAY': fs['nz'], 'ROW': fs['ny'],
            'COL': fs['nx']}
    names = list(dims)
    k = [1, 1, 2, 3, 4][int(rng.integers(5))]
    chosen = [names[i] for i in rng.permutation(4)[:k]]
    win = [[d, gen_window(rng, dims[d])] for d in chosen]
    spec = {'file': fs, 'window': win, 'disk': bool(idx % 6 == 2),
            'npint': bool(idx % 3 == 1)}
    if rng.random() < 0.2 and not fs.get('withcf'):
        # time metadata carried by SDATE/STIME/TSTEP alone (no TFLAG
        # variable), which getTimes supports
        spec['notflag'] = True
    return spec


def norm(sel, n):
    if 'i' in sel:
        i = sel['i'] % n
        return i, i + 1
    a, b, st = slice(*sel['s']).indices(n)
    return a, b


def run(spec, res):
    from .. import harness
    with harness.casedir() as d, harness.handles() as h:
        run_in(spec, res, d, h)


def run_in(spec, res, d, h):
    from .. import harness
    from ..refsel import dec_sel
    fs = spec['file']
    f = gen_ioapi.build(fs)
    if fs.get('via') == 'uamiv':
        res.facet('source:camx-reader')
    if spec.get('notflag') and fs.get('via') != 'uamiv':
        # (a reader's file always has its time flags)
        del f.variables['TFLAG']
        res.facet('no-TFLAG-variable')
    elif spec.get('disk'):
        # the IOAPI file saved and opened again from disk
        g = gen_ioapi.open_m3io(fs, d, h) if fs['seed'] % 2 == 0 else None
        if g is not None:
            # the file as the I/O API library itself writes it
            res.facet('source:disk-m3io')
        else:
            g = harness.to_disk(f, d, h, fmt='ioapi')
        if g is not None:
            f = g
            res.facet('source:disk')
    kw = {d: dec_sel(s) for d, s in spec['window']}
    if spec.get('npint'):
        # integer windows handed over as numpy integers (np.unravel_index,
        # rng.integers, ...)
        kw = {d: (np.int64(v) if isinstance(v, int) else v)
              for d, v in kw.items()}
        res.facet('numpy-integer-windows')
    x0, y0 = float(f.XORIG), float(f.YORIG)
    xc, yc = float(f.XCELL), float(f.YCELL)
    vg = np.array(f.VGLVLS, copy=True)
    src_times = gen_ioapi.expected_times(fs)
    src_lib = [as_utc_tuple(t)[:6] for t in f.getTimes()]
    dg = digest(spec)
    facets = ['dims:' + '+'.join(sorted(kw)),
              'kinds:' + ''.join(sorted('i' if 'i' in s else 's'
                                        for _, s in spec['window']))]
    try:
        out = f.sliceDimensions(**kw)
    except Exception as e:
        res.hook('sliceDimensions.return')
        res.ev(dg, True, facets + ['raised'])
        res.viol('in-domain-raise:%s' % type(e).__name__,
                 'sliceDimensions(%s) raised %r' % (spec['window'], e),
                 window=spec['window'], excmsg=str(e)[:200])
        return
    res.hook('sliceDimensions.return')
    res.hook('oracle.compare')
    n = {'TSTEP': fs['nt'], 'LAY': fs['nz'], 'ROW': fs['ny'], 'COL': fs['nx']}
    w = {d: norm(s, n[d]) for d, s in spec['window']}
    problems = []
    dropped = any((b - a) < n[d] for d, (a, b) in w.items())
    if 'COL' in w:
        exp = x0 + w['COL'][0] * xc
        if abs(float(out.XORIG) - exp) > 1e-9 * max(1.0, abs(exp)):
            problems.append('XORIG %r, expected %r (= %r + %d * %r)'
                            % (float(out.XORIG), exp, x0, w['COL'][0], xc))
    elif float(out.XORIG) != x0:
        problems.append('XORIG changed to %r without a COL window'
                        % float(out.XORIG))
    if 'ROW' in w:
        exp = y0 + w['ROW'][0] * yc
        if abs(float(out.YORIG) - exp) > 1e-9 * max(1.0, abs(exp)):
            problems.append('YORIG %r, expected %r (= %r + %d * %r)'
                            % (float(out.YORIG), exp, y0, w['ROW'][0], yc))
    elif float(out.YORIG) != y0:
        problems.append('YORIG changed to %r without a ROW window'
                        % float(out.YORIG))
    if float(out.XCELL) != xc or float(out.YCELL) != yc:
        problems.append('cell size changed')
    a, b = w.get('LAY', (0, n['LAY']))
    ev = vg[a:b + 1]
    gv = np.asarray(out.VGLVLS)
    if gv.shape != ev.shape or gv.astype('f4').tobytes() != ev.astype(
            'f4').tobytes():
        problems.append('VGLVLS %s, expected %s (layers %d..%d of %s)'
                        % (gv.tolist(), ev.tolist(), a, b - 1, vg.tolist()))
    a, b = w.get('TSTEP', (0, n['TSTEP']))
    et = src_times[a:b]
    try:
        gt = [as_utc_tuple(t)[:6] for t in out.getTimes()]
    except Exception as e:
        gt = None
        problems.append('getTimes() of the window raised %r' % (e,))
    if gt is not None and gt != et:
        problems.append('window times %s, expected %s' % (gt[:3], et[:3]))
    if src_lib[a:b] != et:
        problems.append('source getTimes()[window] %s != integer calendar %s'
                        % (src_lib[a:b][:3], et[:3]))
    # attributes decode to the same instants (own arithmetic, not getTimes)
    dt = gen_ioapi.tstep_seconds(fs['tstep'])
    d0, t0 = gen_ioapi.jd_add(fs['sdate'], fs['stime'], a * dt)
    if int(out.SDATE) != d0 or int(out.STIME) != t0:
        problems.append('SDATE/STIME (%s, %s), expected (%d, %d)'
                        % (out.SDATE, out.STIME, d0, t0))
    if b - a >= 2 and int(out.TSTEP) != fs['tstep']:
        problems.append('TSTEP %s, expected %d' % (out.TSTEP, fs['tstep']))
    tf = np.asarray(out.variables['TFLAG'][...])
    for i in range(b - a):
        d, t = gen_ioapi.jd_add(fs['sdate'], fs['stime'], (a + i) * dt)
        if tf.shape[0] != b - a or not (tf[i, :, 0] == d).all() or not (
                tf[i, :, 1] == t).all():
            problems.append('TFLAG[%d] = %s, expected (%d, %d)'
                            % (i, tf[i, 0].tolist() if i < tf.shape[0]
                               else None, d, t))
            break
    if not problems and 'TSTEP' in w and not spec.get('disk') and \
            not spec.get('notflag') and fs.get('via') != 'uamiv' and \
            fs['seed'] % 2 == 0:
        # the same file object is re-dated (all steps moved by ten days and
        # an hour) and windowed again: the second window is referenced to
        # the new times
        try:
            nd, ntm = gen_ioapi.jd_add(fs['sdate'], fs['stime'],
                                       864000 + 3600)
            if 'time' in f.variables:
                raise LookupError('file carries a CF time coordinate')
            # (consistent in-place edit of the flags and the start)
            tfv = f.variables['TFLAG']
            for i_ in range(fs['nt']):
                di_, ti_ = gen_ioapi.jd_add(nd, ntm, i_ * dt)
                tfv[i_, :, 0] = di_
                tfv[i_, :, 1] = ti_
            f.SDATE, f.STIME = nd, ntm
            out2 = f.sliceDimensions(**kw)
            res.hook('sliceDimensions.return')
            res.facet('re-dated-second-window')
            d0, t0 = gen_ioapi.jd_add(nd, ntm, a * dt)
            if int(out2.SDATE) != d0 or int(out2.STIME) != t0:
                problems.append('after re-dating the source to (%d, %d) the '
                                'same window has SDATE/STIME (%s, %s), '
                                'expected (%d, %d)' % (nd, ntm, out2.SDATE,
                                                       out2.STIME, d0, t0))
            tf2 = np.asarray(out2.variables['TFLAG'][...])
            if tf2.shape[0] != b - a or int(tf2[0, 0, 0]) != d0 or \
                    int(tf2[0, 0, 1]) != t0:
                problems.append('after re-dating the source the same window '
                                'has TFLAG[0] = %s, expected (%d, %d)'
                                % (tf2[0, 0].tolist() if tf2.shape[0] else
                                   None, d0, t0))
            g2 = [as_utc_tuple(t)[:6] for t in out2.getTimes()]
            e2 = [gen_ioapi.jd_tuple(*gen_ioapi.jd_add(nd, ntm, (a + i) * dt))
                  for i in range(b - a)]
            if g2 != e2:
                problems.append('after re-dating the source the same window '
                                'decodes to %s, expected %s' % (g2[:2],
                                                                e2[:2]))
        except Exception as e:
            res.note('re-dated-window-raised:%s' % type(e).__name__)
    if not problems and fs['nt'] >= 4 and not spec.get('disk') and \
            not spec.get('notflag') and fs.get('via') != 'uamiv' and \
            fs['seed'] % 2 == 1:
        # a source whose steps are not evenly spaced (steps 0, 1, 3[, 4] of
        # a fresh copy): a window across the gap keeps each retained step's
        # own time stamp
        try:
            f2 = gen_ioapi.build(fs)
            if 'time' in f2.variables:
                raise LookupError('file carries a CF time coordinate')
            keep = [0, 1, 3] + ([4] if fs['nt'] > 4 else [])
            src2 = f2.sliceDimensions(TSTEP=keep)
            w2 = src2.sliceDimensions(TSTEP=slice(1, 3))
            res.hook('sliceDimensions.return')
            res.facet('window-across-uneven-steps')
            want = [gen_ioapi.jd_add(fs['sdate'], fs['stime'], i * dt)
                    for i in (1, 3)]
            tf2 = np.asarray(w2.variables['TFLAG'][...])
            got2 = [(int(tf2[i, 0, 0]), int(tf2[i, 0, 1]))
                    for i in range(tf2.shape[0])]
            if got2 != [tuple(x) for x in want]:
                problems.append('window [1:3] of a source holding steps %s: '
                                'TFLAG %s, the retained steps are %s'
                                % (keep, got2, want))
            g2 = [as_utc_tuple(t)[:6] for t in w2.getTimes()]
            e2 = [gen_ioapi.jd_tuple(*x) for x in want]
            if g2 != e2:
                problems.append('window [1:3] of a source holding steps %s '
                                'decodes to %s, expected %s' % (keep, g2, e2))
            if (int(w2.SDATE), int(w2.STIME)) != tuple(want[0]):
                problems.append('window [1:3] of a source holding steps %s: '
                                'SDATE/STIME (%s, %s), expected %s'
                                % (keep, w2.SDATE, w2.STIME, want[0]))
        except Exception as e:
            res.note('uneven-window-raised:%s' % type(e).__name__)
    res.ev(dg, dropped, facets)
    if problems:
        res.viol('referencing-lost:' + '+'.join(sorted(kw)),
                 'window %s on nt,nz,ny,nx=%s: %s'
                 % (spec['window'], (fs['nt'], fs['nz'], fs['ny'], fs['nx']),
                    '; '.join(problems[:5])),
                 window=spec['window'], problems=problems[:8],
                 tstep=fs['tstep'])
