"""C10 -- IOAPI metadata stays coherent under every operation.

Monitor: return of every operation of random programs on IOAPI files;
oracle coherent() (NVARS / VAR-LIST / VAR dimension / TFLAG second axis /
listed variables and their dimensions / NCOLS,NROWS,NLAYS / VGLVLS length /
SDATE,STIME vs TFLAG[0,0]); secondary oracle: the structural keys of the
library's own audit_meta()."""
import numpy as np

from .. import gen_ioapi, ops, snapshot
from ..cli import digest

PROP = 'C10'
LEVEL = 'exploration'
RULE = ('random programs of 1-5 operations from {copy, slice (int/slice/list '
        'selectors over TSTEP/LAY/ROW/COL/PERIM), subset, rename, apply '
        '(reducers and length-changing callables incl. over TSTEP and LAY), '
        'eval, mask, stack(TSTEP), interpSigma; renames also with copyall=False '
        'and onto existing names} on gridded and boundary IOAPI '
        'files built by from_arrays, from GRIDDESC parameters (with and '
        'without the CF coordinate variables), or written to '
        'disk and reopened; the coherence oracle runs on the real result of '
        'every step. non-trivial = the operation returned; distinct = digest '
        'of (operation, input digest).')
RULE += (" save(format='ioapi') is a legal query step inside a program (the next file built must not inherit anything); programs stop after apply over TSTEP (time metadata is then the caller's).")
RULE += (' A share of the gridded files is the IOAPI-class object the CAMx gridded READER (uamiv) returns for an image written by the independent codec (whole-hour steps up to 168 h, ETFLAG present, header completed by the class).')
RULE += (" Writer case (one gridded case in five with >= 2 steps): the same IOAPI content saved, opened as a plain netCDF file (no format named), cut to its later steps with the generic slice and written through the 'ioapi' writer; the written file must be coherent, decode to the kept steps, and close its last interval with the step it states. Files from the CAMx reader include surface files with nz = 0 in the grid header.")
RULE += (' IOAPI files may carry a variable without dimensions.')
RULE += (" Half of the IOAPI files opened from disk are written here with netCDF4 directly the way the Models-3 I/O API library writes them (netCDF classic 64-bit offset, int32 header integers, float64 grid reals, float32 VGLVLS, TFLAG first, TSTEP the record dimension), independent of the library's writers.")
RULE += (' One program in seven starts with a pointwise selection (index lists of one length for ROW and COL).')
ASSUMPTIONS = [
    'a file with zero listed variables may keep VAR/TFLAG second axis of '
    'length 1 (the convention cannot express an empty axis)',
    'the step is only judged when its INPUT file was coherent (so one defect '
    'is reported once, where it is introduced)',
    'operations named by the property only (arithmetic between IOAPI files '
    'is not part of C10)',
]
HOOKS = ['op.return', 'coherent.eval', 'audit_meta.eval']
MIN_DISTINCT = {'quick': 800, 'thorough': 10000}
N = {'quick': 1200, 'thorough': 30000}
ALLOWED = ['copy', 'slice', 'subset', 'renamevar', 'apply', 'eval', 'mask',
           'stack', 'interpsigma', 'save_ioapi']
FACETS_REQUIRED = {t: ['op:' + k for k in ALLOWED] + ['via:from_arrays',
                                                     'via:griddesc',
                                                     'via:disk', 'kind:bdy']
                   for t in ('quick', 'thorough')}
AUDIT_KEYS = ('LAY', 'ROW', 'COL', 'VAR', 'VAR-LIST-LEN', 'VAR-LIST',
              'SDATE_TFLAG', 'STIME_TFLAG', 'has_TFLAG')


def pclass(p):
    for key, name in (('NVARS=', 'nvars'), ('VAR dimension', 'vardim'),
                      ('TFLAG second axis', 'tflagaxis'),
                      ('does not exist', 'listed-missing'),
                      ('has dimensions', 'listed-dims'),
                      ('but dimension', 'count-attr'), ('VGLVLS', 'vglvls'),
                      ('SDATE/STIME', 'sdate'), ('not YYYYJJJ', 'tflag'),
                      ('VAR-LIST', 'varlist')):
        if key in p:
            return name
    return 'other'


def ncases(tier):
    return N[tier]


def gen(rng, idx, tier, seed):
    via = ['from_arrays', 'griddesc', 'disk', 'from_arrays', 'from_arrays',
           'griddesc', 'disk', 'uamiv'][idx % 8]
    fs = gen_ioapi.gen_spec(rng, via='from_arrays' if via == 'disk' else via)
    return {'file': fs, 'disk': via == 'disk',
            'prog_seed': int(rng.integers(1 << 30)),
            'nops': int(rng.integers(1, 6))}


def audit_structural(f):
    try:
        passing, audit, var_audits = f.audit_meta(fail='ignore')
    except Exception as e:
        return None, repr(e)
    bad = [k for k in AUDIT_KEYS if k in audit and not audit[k]]
    if 'VAR' in bad and int(f.NVARS) == 0 and len(f.dimensions['VAR']) == 1:
        # a file without listed variables keeps a VAR dimension of 1 (the
        # library's own getVarlist does that); the audit counts it as a
        # mismatch
        bad.remove('VAR')
    bad += [k for k in audit if k.startswith('has_') and not audit[k] and
            k[4:] in f.getVarlist(update=False)]
    return bad, None


def run(spec, res):
    from .. import harness
    with harness.casedir() as d, harness.handles() as h:
        f = gen_ioapi.build(spec['file'])
        if spec['file'].get('via') == 'uamiv':
            res.facet('source:camx-reader')
        if spec.get('disk'):
            import os
            import PseudoNetCDF as pnc
            g = gen_ioapi.open_m3io(spec['file'], d, h) \
                if spec['prog_seed'] % 2 == 0 else None
            if g is not None:
                # the file as the I/O API library itself writes it
                f = g
                res.facet('via:disk-m3io')
            else:
                path = os.path.join(d, 'io.nc')
                h.keep(f.save(path, format='NETCDF3_CLASSIC',
                              verbose=0)).close()
                f = h.keep(pnc.pncopen(path, format='ioapi'))
            res.facet('via:disk')
        else:
            res.facet('via:' + spec['file']['via'])
        res.facet('kind:' + spec['file']['kind'])
        bad = gen_ioapi.coherent(f)
        res.hook('coherent.eval')
        res.ev(digest(['ctor', spec['file'], spec.get('disk')]), True, 'ctor')
        if bad:
            res.viol('constructor-incoherent:%s' % (
                'disk' if spec.get('disk') else spec['file']['via']),
                '; '.join(bad[:5]), problems=bad[:8])
            return
        trace = []

        def on_step(phase, st, pre):
            if phase == 'before':
                recv = st.inputs[0]
                return {'ok': not gen_ioapi.coherent(recv),
                        'dig': snapshot.file_digest_bytes(
                            snapshot.snap_file(recv))}
            res.hook('op.return')
            res.facet('op:' + st.op)
            trace.append(st.desc)
            dg = digest([st.desc, pre['dig']])
            if st.exc is not None:
                res.ev(dg, False, 'raised')
                return      # completion of in-domain calls is C01's business
            out = st.result
            if not ops.is_ioapi(out):
                res.ev(dg, False, 'non-ioapi-result')
                return
            res.ev(dg, True)
            if not pre['ok']:
                res.note('skipped:input-already-incoherent')
                return
            res.hook('coherent.eval')
            bad = gen_ioapi.coherent(out)
            if st.op == 'apply' and 'TSTEP' in st.meta.get('apply', {}):
                # the known finding C10-apply-tstep-sdate: TFLAG was
                # transformed as data (it may still look coherent when the
                # first stamp survives, e.g. a cumulative sum); whatever
                # follows inherits garbage time flags, so the program ends
                st.meta['stop'] = True
            if bad:
                cls = '+'.join(sorted({pclass(p) for p in bad}))
                res.viol('incoherent-after:%s:%s' % (st.op, cls),
                         '%s -> %s (program %s)' % (st.desc,
                                                    '; '.join(bad[:5]),
                                                    trace),
                         op=st.op, meta=st.meta, problems=bad[:8])
                return
            res.hook('audit_meta.eval')
            abad, err = audit_structural(out)
            if err:
                res.note('audit_meta-raised')
            elif abad:
                res.viol('oracle-disagreement:%s' % st.op,
                         'my coherence oracle accepts the result of %s but '
                         'the library audit_meta fails %s' % (st.desc, abad),
                         op=st.op, audit=abad)

        first = None
        if spec['prog_seed'] % 7 == 3 and 'ROW' in f.dimensions and \
                'COL' in f.dimensions:
            # the program starts with a pointwise selection (index lists of
            # one length for ROW and COL): the gridded variables move to a
            # POINTS dimension and are no longer variables of the grid
            r7 = np.random.default_rng([spec['prog_seed'], 707])
            npt = int(r7.integers(1, 4))
            pts = {k: {'l': [int(x) for x in r7.integers(
                0, len(f.dimensions[k]), npt)]} for k in ('ROW', 'COL')}

            def first(cur):
                return ops.op_points(cur, pts)
            res.facet('program:pointwise-first')
        ops.run_program(f, spec['prog_seed'], spec['nops'], allowed=ALLOWED,
                        on_step=on_step, first=first)
        if spec['prog_seed'] % 5 == 2 and spec['file']['kind'] == 'grid' \
                and spec['file']['nt'] >= 2 and not spec.get('disk') and \
                spec['file'].get('via') != 'uamiv':
            writer_case(spec, res, d, h)


def writer_case(spec, res, d, h):
    """the same IOAPI content handled as a plain netCDF file (no format
    named), cut in time with the generic slice, and written through the
    'ioapi' writer: what the writer produces is an IOAPI file and must be
    coherent"""
    import os
    import PseudoNetCDF as pnc
    f = gen_ioapi.build(spec['file'])
    k = 1 + spec['prog_seed'] % max(1, spec['file']['nt'] - 1)
    try:
        p1 = os.path.join(d, 'plain.nc')
        h.keep(f.save(p1, format='NETCDF4_CLASSIC', verbose=0)).close()
        g = h.keep(pnc.pncopen(p1, format='netcdf'))
        cut = g.sliceDimensions(TSTEP=slice(k, None))
        p2 = os.path.join(d, 'written.ioapi.nc')
        o = cut.save(p2, format='ioapi', verbose=0)
        h.keep(o)
        o.close()
        w = h.keep(pnc.pncopen(p2, format='ioapi'))
    except Exception as e:
        res.ev(digest(['writer', spec['file'], k]), True, 'writer-raised')
        res.viol('writer-raised:%s' % type(e).__name__,
                 "IOAPI content opened as plain netCDF, steps %d.. of %d "
                 "kept, save(format='ioapi') raised %r"
                 % (k, spec['file']['nt'], e), excmsg=str(e)[:200],
                 kept=spec['file']['nt'] - k)
        return
    res.hook('coherent.eval')
    res.facet('writer:plain-source-time-window')
    bad = gen_ioapi.coherent(w)
    exp = gen_ioapi.expected_times(spec['file'])[k:]
    try:
        got = [tuple(t.timetuple()[:6]) for t in w.getTimes()]
        if got != exp:
            bad.append('written file decodes to %s, the kept steps are %s'
                       % (got[:2], exp[:2]))
        if len(exp) >= 2:
            # the step the writer states closes the last interval
            gb = [tuple(t.timetuple()[:6]) for t in w.getTimes(bounds=True)]
            eb = gen_ioapi.expected_times(spec['file'],
                                          n=spec['file']['nt'] + 1)[k:]
            if gb != eb:
                bad.append('written file: edges %s, the kept steps and '
                           'their step (TSTEP %d) say %s; the file states '
                           'TSTEP %r' % (gb[-2:], spec['file']['tstep'],
                                         eb[-2:], getattr(w, 'TSTEP', None)))
    except Exception as e:
        bad.append('getTimes on the written file raised %r' % (e,))
    res.ev(digest(['writer', spec['file'], k]), True, 'writer')
    if bad:
        res.viol('writer-incoherent',
                 "IOAPI content opened as plain netCDF, steps %d.. kept, "
                 "save(format='ioapi'): %s" % (k, '; '.join(bad[:5])),
                 problems=bad[:8])
