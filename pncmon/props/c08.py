"""C08 -- CAMx binary write/read round trip and idempotent rewrite.

Monitor: pncgen(f, path, format=<camx writer>) -> reader open -> second
write; oracle: read(write(f)) == f bit-exactly (species, TFLAG/ETFLAG, grid
header, species order) and bytes(write(read(write(f)))) == bytes(write(f))."""
import os

import numpy as np

from .. import harness, refcamx
from ..cli import digest
from .c09 import open_lib

PROP = 'C08'
LEVEL = 'exploration'
RULE = ('CAMx-convention in-memory files obtained (a) by reading an image '
        'made by the independent encoder and (b) by direct construction '
        '(ioapi_base.from_arrays + CAMx header attributes, no ETFLAG) for '
        'every writer format (uamiv all NAME variants, lateral boundary, '
        'land use old/new, wind, temperature, height/pressure, humidity, '
        'vertical diffusivity, one-3D, cloud/rain 3/5 variables); species '
        'counts 1-4 with names up to 10 characters incl. prefixes of one '
        'another, nx != ny != nz, 1-4 hourly steps starting at any date '
        '1970-2069 and hour (day/year/leap/century roll-overs stratified), '
        'payloads incl. denormals, -0.0, +-max. non-trivial = >= 2 cells '
        'per field; distinct = digest of the spec.')
RULE += (' Also: end times at hour 24, species names with underscores, stale header attributes on constructed files, another file of the same format opened between read and write (decoy), cloud/rain sizes that are whole numbers of both 3- and 5-variable steps.')
RULE += (" The wind file's stagger flag (present/absent and value) and the cloud/rain file description are compared on read-back.")
RULE += (" A quarter of the sources (all formats but land use) are the reader's file converted to netCDF (classic flavour), opened as a plain netCDF file and written back in the model's format - the usual conversion workflow.")
ASSUMPTIONS = [
    'f is the in-memory file handed to the writer; equality is bit-exact on '
    'float32 data and exact on integer time flags',
    'CAMx two-digit years: 1970-2069 window',
    'wall-clock IOAPI stamps are not part of the comparison',
]
HOOKS = ['writer.return', 'reader.return', 'rewrite.return',
         'oracle.compare']
MIN_DISTINCT = {'quick': 300, 'thorough': 5000}
N = {'quick': 600, 'thorough': 12000}
FACETS_REQUIRED = {t: ['fmt:' + f for f in refcamx.FORMATS] +
                   ['src:image', 'src:direct']
                   for t in ('quick', 'thorough')}
JOBS = {'quick': 8}


def ncases(tier):
    return N[tier]


def gen(rng, idx, tier, seed):
    fmt = refcamx.FORMATS[idx % len(refcamx.FORMATS)]
    spec = refcamx.gen_spec(rng, fmt)
    spec['dhour'] = 1       # C08 is quantified over hourly steps
    spec['src'] = ['image', 'image', 'direct', 'netcdf'][
        (idx // len(refcamx.FORMATS)) % 4]
    if spec['src'] == 'netcdf' and fmt == 'landuse':
        # (a netCDF copy does not say whether the land-use file was old or
        # new style)
        spec['src'] = 'image'
    leap = spec['src'] == 'direct' and fmt in ('uamiv', 'lateral_boundary') \
        and rng.random() < 0.5
    if leap:
        # hand-built files (no end-time variable, the writer derives the end
        # of each step): steps on the last day of a leap year, a century
        # year among them
        spec['sdate'] = int(rng.choice([2000366, 2000366, 2000365, 2004366,
                                        2024366]))
        spec['shour'] = int(rng.choice([0, 12, 20, 22, 23]))
    spec['stale_attrs'] = bool(rng.random() < 0.3)
    spec['decoy_seed'] = int(rng.integers(1 << 30)) if rng.random() < 0.4 \
        else None
    if fmt in ('uamiv', 'lateral_boundary') and rng.random() < 0.35 and \
            not leap:
        # end of a step at midnight written as hour 24 of the ending day
        spec['eod24'] = True
        spec['shour'] = (24 - int(rng.integers(1, spec['nt'] + 1))) % 24
    if fmt in ('uamiv', 'lateral_boundary') and rng.random() < 0.25:
        # species names with underscores, one a prefix of the other
        spec['names'] = ['PM', 'PM_10', 'O3_X', 'A_B_C'][:max(2, len(
            spec['names']))]
    elif rng.random() < 0.3:
        # names that are prefixes of one another
        spec['names'] = ['NO', 'NO2', 'NO2X', 'N'][:max(2, len(
            spec['names']))]
    return spec


def build_direct(spec):
    """CAMx-convention file built with the public API, without going through
    the library's reader (no ETFLAG, no _boundary_def); variables are created
    in a shuffled order, as a hand-built or merged file may have them"""
    import PseudoNetCDF as pnc
    fmt = spec['fmt']
    c = refcamx.content(spec)
    st = refcamx.step_times(spec)
    rng = np.random.default_rng([spec['seed'], 61])
    f = pnc.PseudoNetCDFFile()
    nv = len(c['vars'])
    if fmt == 'landuse':
        f.createDimension('LANDUSE', c['dims']['LANDUSE'])
    else:
        f.createDimension('TSTEP', spec['nt']).setunlimited(True)
        f.createDimension('LAY', spec['nz'])
    f.createDimension('ROW', spec['ny'])
    f.createDimension('COL', spec['nx'])
    f.createDimension('VAR', nv)
    f.createDimension('DATE-TIME', 2)
    order = list(c['vars'])
    if fmt not in ('uamiv', 'lateral_boundary'):
        order = [order[i] for i in rng.permutation(len(order))]
    todo = order + ([] if fmt == 'landuse' else ['TFLAG'])
    if rng.random() < 0.5 and fmt != 'landuse':
        todo = ['TFLAG'] + order
    et = refcamx.end_times(spec)
    for k in todo:
        if k == 'TFLAG':
            tf = f.createVariable('TFLAG', 'i', ('TSTEP', 'VAR', 'DATE-TIME'))
            tf.units = '<YYYYDDD,HHMMSS>'
            for t in range(spec['nt']):
                tf[t, :, 0] = st[t][0]
                tf[t, :, 1] = st[t][1] * 10000
            if spec.get('eod24'):
                # explicit end times in the hour-24 convention
                ef = f.createVariable('ETFLAG', 'i',
                                      ('TSTEP', 'VAR', 'DATE-TIME'))
                ef.units = '<YYYYDDD,HHMMSS>'
                for t in range(spec['nt']):
                    ef[t, :, 0] = et[t][0]
                    ef[t, :, 1] = et[t][1] * 10000
            continue
        a = c['vars'][k]
        if fmt == 'lateral_boundary':
            d = ('TSTEP', 'ROW', 'LAY') if k.split('_')[0] in (
                'WEST', 'EAST') else ('TSTEP', 'COL', 'LAY')
        elif fmt == 'landuse':
            d = ('LANDUSE', 'ROW', 'COL') if a.ndim == 3 else ('ROW', 'COL')
        elif a.ndim == 3:
            d = ('TSTEP', 'ROW', 'COL')
        else:
            d = ('TSTEP', 'LAY', 'ROW', 'COL')
        # a share of the hand-built files holds double-precision variables
        # (what a computation leaves behind); the values are the same
        v = f.createVariable(k, 'd' if spec['seed'] % 4 == 1 else 'f', d)
        v.units = 'ppm'
        v[...] = a
    setattr(f, 'VAR-LIST', ''.join(k.ljust(16) for k in c['vars']))
    f.NVARS = nv
    f.NLAYS, f.NROWS, f.NCOLS = spec['nz'], spec['ny'], spec['nx']
    if spec.get('stale_attrs'):
        # count attributes left behind by an earlier subsetting (e.g. the
        # functional slice_dim): the content is what the dimensions say
        f.NLAYS, f.NROWS, f.NCOLS = spec['nz'] + 1, spec['ny'] + 2, \
            spec['nx'] + 1
    if fmt != 'landuse':
        f.SDATE = st[0][0]
        f.STIME = st[0][1] * 10000
        f.TSTEP = int(spec.get('dhour', 1)) * 10000
    if fmt in ('uamiv', 'lateral_boundary'):
        h = c['header']
        f.NAME = h['name'].ljust(10)
        f.NOTE = h['note'].ljust(60)
        f.ITZON = h['itzon']
        for att, key in (('XORIG', 'xorg'), ('YORIG', 'yorg'),
                         ('XCELL', 'delx'), ('YCELL', 'dely'),
                         ('PLON', 'plon'), ('PLAT', 'plat'),
                         ('TLAT1', 'tlat1'), ('TLAT2', 'tlat2'),
                         ('CPROJ', 'iproj'), ('ISTAG', 'istag'),
                         ('IUTM', 'iutm')):
            setattr(f, att, h[key])
    elif fmt == 'wind':
        ls = spec.get('lstagger')
        f.LSTAGGER = np.float32('nan') if ls is None else np.int32(ls)
    elif fmt == 'cloud_rain':
        f.FILEDESC = refcamx.cloud_hdr(spec)
    elif fmt == 'landuse':
        f._newstyle = bool(spec.get('newstyle'))
    return f, c


def snap(f, keys):
    out = {}
    for k in keys:
        out[k] = np.array(np.asarray(f.variables[k][...]), copy=True)
    return out


def run(spec, res):
    from PseudoNetCDF.pncgen import pncgen
    fmt = spec['fmt']
    facets = ['fmt:' + fmt, 'src:' + spec['src'], 'nt:%d' % spec['nt']]
    ncell = spec['nx'] * spec['ny']
    dg = digest(spec)
    nc_handles = []
    try:
        return run_case(spec, res, fmt, facets, ncell, dg, nc_handles,
                        pncgen)
    finally:
        for x in nc_handles:
            try:
                x.close()
            except Exception:
                pass


def run_case(spec, res, fmt, facets, ncell, dg, nc_handles, pncgen):
    with harness.casedir() as d:
        if spec['src'] == 'direct':
            try:
                f, c = build_direct(spec)
            except Exception as e:
                res.note('direct-construction-failed:%s' % type(e).__name__)
                res.hook('writer.return', 0)
                return
        else:
            img = os.path.join(d, 'img.' + fmt)
            with open(img, 'wb') as fh:
                fh.write(refcamx.encode(spec))
            c = refcamx.content(spec)
            try:
                f = open_lib(fmt, img, spec)
            except Exception as e:
                res.note('reader-rejected-image:%s' % type(e).__name__)
                res.ev(dg, False, facets + ['reader-rejected'])
                return
            if spec['src'] == 'netcdf':
                # the usual workflow: the model file converted to netCDF
                # (classic flavour: it can hold the NAME attribute), that
                # file opened as a plain netCDF file and written back in the
                # model's format
                try:
                    import PseudoNetCDF as pnc
                    pn = os.path.join(d, 'via.nc')
                    if spec['seed'] % 2 == 0:
                        # the netCDF copy as another tool would store it:
                        # fields packed into short integers (lossy: what the
                        # copy delivers is the content to be written)
                        try:
                            harness.write_foreign(f, pn,
                                                  flavour='NETCDF3_CLASSIC')
                            facets.append('netcdf-copy-packed')
                        except Exception:
                            if os.path.exists(pn):
                                os.remove(pn)
                    if not os.path.exists(pn):
                        o0 = f.save(pn, format='NETCDF3_CLASSIC', verbose=0)
                        o0.close()
                    f = pnc.pncopen(pn, format='netcdf')
                    nc_handles.append(f)
                except Exception as e:
                    res.note('netcdf-conversion-failed:%s' % type(e).__name__)
                    res.ev(dg, False, facets + ['netcdf-conversion-failed'])
                    return
        keys = [k for k in c['vars']]
        tkeys = [k for k in ('TFLAG', 'ETFLAG') if k in f.variables.keys()]
        try:
            pre = snap(f, keys + tkeys)
        except Exception as e:
            res.note('source-unreadable:%s' % type(e).__name__)
            res.ev(dg, False, facets + ['source-unreadable'])
            return
        p1 = os.path.join(d, 'w1.' + fmt)
        p2 = os.path.join(d, 'w2.' + fmt)
        problems = []
        if spec.get('decoy_seed') is not None and fmt != 'landuse':
            # another file of the same format (another grid) is opened and
            # read between reading f and writing it: what one open file knows
            # must not leak into another
            try:
                ds = refcamx.gen_spec(np.random.default_rng(
                    [spec['decoy_seed'], 3]), fmt)
                if fmt == 'uamiv':
                    ds['name'] = 'AVERAGE'
                dp = os.path.join(d, 'decoy.' + fmt)
                with open(dp, 'wb') as fh:
                    fh.write(refcamx.encode(ds))
                dec = open_lib(fmt, dp, ds)
                for k in list(dec.variables.keys())[:2]:
                    np.asarray(dec.variables[k][...])
                facets.append('decoy-open')
            except Exception:
                res.note('decoy-open-failed')
        try:
            o = pncgen(f, p1, format=fmt, verbose=0)
            try:
                o.close()
            except Exception:
                pass
            res.hook('writer.return')
        except Exception as e:
            res.hook('writer.return')
            res.ev(dg, ncell >= 2, facets + ['writer-raised'])
            res.viol('writer-raised:%s:%s' % (fmt, type(e).__name__),
                     '%s writer raised %r (source %s)' % (fmt, e,
                                                          spec['src']),
                     fmt=fmt, src=spec['src'], excmsg=str(e)[:200])
            return
        try:
            with harness.step_budget(2000000):
                g = open_lib(fmt, p1, spec)
                post = snap(g, keys + tkeys)
            res.hook('reader.return')
        except harness.StepBudgetExceeded as e:
            res.hook('reader.return')
            res.ev(dg, ncell >= 2, facets)
            res.viol('reread-hangs:%s' % fmt, 'reading the written file '
                     'does not terminate: %s' % e, fmt=fmt)
            return
        except Exception as e:
            res.hook('reader.return')
            res.ev(dg, ncell >= 2, facets)
            res.viol('reread-raised:%s:%s' % (fmt, type(e).__name__),
                     'reading the written %s file raised %r (source %s)'
                     % (fmt, e, spec['src']), fmt=fmt, src=spec['src'])
            return
        for k in keys + tkeys:
            res.hook('oracle.compare')
            a, b = pre[k], post[k]
            if a.shape != b.shape:
                # length-1 axes are not part of the property
                if a.squeeze().shape != b.squeeze().shape:
                    problems.append('%s: shape %s -> %s' % (k, a.shape,
                                                            b.shape))
                    continue
                a, b = a.squeeze(), b.squeeze()
            if a.dtype.kind == 'f' or b.dtype.kind == 'f':
                same = a.astype('f4').tobytes() == b.astype('f4').tobytes()
            else:
                same = np.array_equal(a, b)
            if not same:
                ne = np.argwhere(np.asarray(a) != np.asarray(b))
                i = tuple(ne[0]) if len(ne) else ()
                problems.append('%s: %d values differ after write/read, '
                                'first %s: %r -> %r' % (
                                    k, len(ne), i, a[i] if len(ne) else None,
                                    b[i] if len(ne) else None))
        if fmt in ('uamiv', 'lateral_boundary'):
            for att in ('XORIG', 'YORIG', 'XCELL', 'YCELL', 'PLON', 'PLAT',
                        'TLAT1', 'TLAT2', 'CPROJ', 'ISTAG', 'IUTM', 'ITZON'):
                if float(np.float32(getattr(f, att))) != float(
                        np.float32(getattr(g, att))):
                    problems.append('header %s: %r -> %r' % (
                        att, getattr(f, att), getattr(g, att)))
            if str(f.NAME).strip() != str(g.NAME).strip():
                problems.append('NAME %r -> %r' % (f.NAME, g.NAME))
            la, lb = getattr(f, 'VAR-LIST'), getattr(g, 'VAR-LIST')
            na = [la[i:i + 16].strip() for i in range(0, len(la), 16)]
            nb = [lb[i:i + 16].strip() for i in range(0, len(lb), 16)]
            if na != nb:
                problems.append('species order %s -> %s' % (na, nb))
        if fmt == 'wind':
            # the time header's stagger flag is the wind file's "grid
            # header": present or absent (nan), and its value, survive
            a_, b_ = getattr(f, 'LSTAGGER', None), getattr(g, 'LSTAGGER',
                                                           None)

            def _ls(x):
                if x is None:
                    return None
                x = float(x)
                return None if x != x else int(x)
            if _ls(a_) != _ls(b_):
                problems.append('header LSTAGGER: %r -> %r' % (a_, b_))
        if fmt == 'cloud_rain' and hasattr(f, 'FILEDESC') and str(
                getattr(f, 'FILEDESC')).strip() != str(
                    getattr(g, 'FILEDESC', '')).strip():
            problems.append('header FILEDESC: %r -> %r' % (
                getattr(f, 'FILEDESC'), getattr(g, 'FILEDESC', None)))
        if spec['src'] == 'direct' and not problems:
            # the independent decoder must also recover what was handed in
            try:
                dec = refcamx.decode(fmt, open(p1, 'rb').read(), spec['ny'],
                                     spec['nx'], nvars=spec.get('nvars'),
                                     newstyle=spec.get('newstyle'))
                if dec['tflag'] != c['tflag']:
                    problems.append('decoded begin times %s, handed in %s'
                                    % (dec['tflag'][:4], c['tflag'][:4]))
                if c['etflag'] and dec['etflag'] != c['etflag']:
                    problems.append('decoded end times %s, begin times + '
                                    'step are %s' % (dec['etflag'][:4],
                                                     c['etflag'][:4]))
                for k, a in c['vars'].items():
                    if k not in dec['vars'] or dec['vars'][k].shape != \
                            a.shape or dec['vars'][k].tobytes() != \
                            a.tobytes():
                        problems.append('independent decoder: variable %s '
                                        'of the written file is not what '
                                        'was handed in' % k)
            except Exception as e:
                problems.append('written bytes do not follow the layout: %s'
                                % (e,))
        # idempotent rewrite
        try:
            o = pncgen(g, p2, format=fmt, verbose=0)
            try:
                o.close()
            except Exception:
                pass
            res.hook('rewrite.return')
            b1 = open(p1, 'rb').read()
            b2 = open(p2, 'rb').read()
            if b1 != b2:
                n = min(len(b1), len(b2))
                first = next((i for i in range(n) if b1[i] != b2[i]), n)
                problems.append('re-writing the re-read file changes the '
                                'bytes (sizes %d/%d, first difference at '
                                'byte %d)' % (len(b1), len(b2), first))
        except Exception as e:
            res.hook('rewrite.return')
            problems.append('second write raised %r' % (e,))
        res.ev(dg, ncell >= 2, facets)
        if problems:
            res.viol('roundtrip-differs:%s:%s' % (fmt, spec['src']),
                     '%s (%s) nt=%d start %d %02d: %s'
                     % (fmt, spec['src'], spec['nt'], spec['sdate'],
                        spec['shour'], '; '.join(problems[:4])),
                     fmt=fmt, src=spec['src'], problems=problems[:8],
                     sdate=spec['sdate'], shour=spec['shour'],
                     nt=spec['nt'])
