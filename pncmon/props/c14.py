"""C14 -- truncated binary files are never silently misread.

Monitor: for each generated valid image F and EVERY byte offset 0 < c < len(F)
the prefix F[:c] is opened with the reader (under a logical-step budget) and
every variable is read; oracle: the outcome is an exception, or a file whose
n' <= n time steps are bit-identical (data and time flags) to the first n'
steps of the full file."""
import os

import numpy as np

from .. import harness, refcamx
from ..cli import digest
from .c09 import open_lib

PROP = 'C14'
LEVEL = 'fault_enumeration'
RULE = ('small reference images (<= ~2 KB) of uamiv, lateral boundary, '
        'temperature, wind, height/pressure, humidity, vertical diffusivity, '
        'one-3D, cloud/rain, land use and GEOS-Chem bpch with 1-3 steps and '
        'distinct non-zero payloads, and the bundled sample files of eight '
        'CAMx formats; for every image ALL proper prefixes are '
        'opened (exhaustive over cut points), classified as header / '
        'inside-marker / mid-record / record-boundary / step-boundary. '
        'evaluations = prefixes opened; non-trivial = every prefix (each is '
        'a distinct crash point); distinct = digest of (image spec, cut).')
RULE += (" Wind images up to 4 steps; gridded prefixes are also opened with mode='r+' (what is then readable is judged the same way; the file size afterwards is a note, not a verdict).")
RULE += (' Where a prefix is itself a valid shorter file, its TFLAG/ETFLAG are compared with the same steps of the full file as well.')
ASSUMPTIONS = [
    'payloads are distinct and non-zero, so zero-filled, shifted or '
    'fabricated values cannot coincide with the right ones',
    'non-termination is decided on logical steps (more than 60,000 backward '
    'jumps inside the library for a file of at most 3 KB; the largest '
    'count seen on a terminating open is reported in the evidence and is '
    'two orders of magnitude smaller)',
    'a prefix that ends exactly at a step boundary is itself a valid shorter '
    'file: exposing its complete steps is correct',
    'formats without a layer/variable count (temperature, height/pressure, '
    'one-3D family, wind, cloud/rain 3 vs 5 variables): a prefix that the '
    'independent decoder accepts as a well-formed file of the format is '
    'not observably truncated; the reader must expose exactly what that '
    'shorter file holds (or raise)',
]
HOOKS = ['prefix.open', 'oracle.compare']
TECHNIQUE = ('fault enumeration under runtime monitoring: every byte-offset '
             'crash point of generated images, judged against the full '
             'file\'s content, with a logical-step budget for termination')
MIN_DISTINCT = {'quick': 10000, 'thorough': 150000}
IMAGES = {'quick': 3, 'thorough': 40}
FMTS = list(refcamx.FORMATS) + ['bpch']
BUDGET = 60000
CHUNKS = 8
JOBS = {'quick': 12}
EXHAUSTIVE = {}


# bundled sample files small enough to be cut at every byte
SAMPLE_FMTS = ['uamiv', 'temperature', 'height_pressure', 'humidity',
               'vertical_diffusivity', 'wind', 'cloud_rain', 'landuse']


def ncases(tier):
    return (IMAGES[tier] * len(FMTS) + len(SAMPLE_FMTS)) * CHUNKS


def gen(rng, idx, tier, seed):
    # case = (image, chunk): chunk j judges the cuts c with c % CHUNKS == j;
    # the image spec depends on the image number only
    from ..cli import case_rng
    chunk = idx % CHUNKS
    idx = idx // CHUNKS
    rng = case_rng(seed, PROP, idx)
    if idx >= IMAGES[tier] * len(FMTS):
        spec = {'fmt': SAMPLE_FMTS[idx - IMAGES[tier] * len(FMTS)],
                'sample': True, 'ny': 4, 'nx': 5, 'nt': 2, 'nz': 3}
    else:
        spec = gen_image(rng, idx, tier, seed)
    spec['chunk'] = chunk
    return spec


def gen_image(rng, idx, tier, seed):
    fmt = FMTS[idx % len(FMTS)]
    if fmt == 'bpch':
        from .. import refbpch
        spec = refbpch.gen_spec(rng, small=True)
        spec['fmt'] = 'bpch'
        # at least one complete step before the cut region, and data
        # blocks longer than the 136-byte file header (header-sized
        # off-by-one errors in step counting need such cuts)
        spec['nt'] = 1 + (idx // len(FMTS)) % 3
        spec['ni'], spec['nj'] = 6, 4
        spec['tracers'] = spec['tracers'][:3]
        return spec
    spec = refcamx.gen_spec(rng, fmt, maxt=3, small=True)
    spec['hostile'] = False
    spec['names'] = spec['names'][:2]
    spec['nt'] = 1 + (idx // len(FMTS)) % 3 if fmt != 'landuse' else 1
    if fmt == 'wind':
        # up to 4 steps; the 3-step image has the older 8-byte time header
        # (no stagger flag), where a step holds fewer words
        spec['nt'] = 1 + (idx // len(FMTS)) % 4
        if spec['nt'] == 3:
            spec['lstagger'] = None
    return spec


MAXCOUNT = 0


def full_content(fmt, path, spec):
    f = open_lib(fmt, path, spec)
    out = {}
    for k in list(f.variables.keys()):
        out[k] = np.array(np.asarray(f.variables[k][...]), copy=True)
    nt = len(f.dimensions['TSTEP']) if 'TSTEP' in f.dimensions else None
    dims = {k: len(d) for k, d in f.dimensions.items()}
    return nt, dims, out


def record_edges(img):
    """byte offsets at which a Fortran record ends (independent walker)"""
    import struct
    edges = []
    pos = 0
    while pos + 4 <= len(img):
        ln, = struct.unpack('>i', img[pos:pos + 4])
        pos += 8 + ln
        edges.append(pos)
    return edges


def classify(cut, edges, step_edges, hdr_end):
    if cut in step_edges:
        return 'step-boundary'
    if cut in edges:
        return 'record-boundary'
    if cut < hdr_end:
        return 'header'
    prev = max([e for e in edges if e < cut] or [0])
    nxt = min([e for e in edges if e > cut] or [10 ** 9])
    if cut - prev < 4 or nxt - cut < 4:
        return 'inside-marker'
    return 'mid-record'


def judge_prefix(fmt, path, spec, full, prefix=None, complete=None):
    """-> (outcome, problem or None)"""
    nt, dims, fv = full
    # Several CAMx formats carry no layer / variable count: a prefix that
    # ends on a record boundary can be byte-identical to a VALID file with
    # fewer layers (single-step met files) or of the older 3-variable
    # cloud/rain flavour.  Such a prefix is not observably truncated; the
    # independent decoder says what it contains and the library must expose
    # exactly that (or raise).
    alt = None
    if prefix is not None and fmt in refcamx.FORMATS:
        try:
            alt = refcamx.decode(fmt, prefix, spec['ny'], spec['nx'])
            if alt['dims'].get('TSTEP', 1) == 0 or not alt['vars']:
                alt = None
        except Exception:
            alt = None
    global MAXCOUNT
    try:
        with harness.step_budget(BUDGET) as b:
            try:
                g = open_lib(fmt, path, spec)
                got = {}
                for k in list(g.variables.keys()):
                    got[k] = np.asarray(g.variables[k][...])
                gnt = len(g.dimensions['TSTEP']) \
                    if 'TSTEP' in g.dimensions else None
            finally:
                MAXCOUNT = max(MAXCOUNT, b.count if b.limit is not None
                               else 0)
    except harness.StepBudgetExceeded as e:
        return 'hang', 'open/read does not terminate: %s' % e
    except Exception:
        return 'raised', None
    if alt is not None:
        for k, a in got.items():
            if k in ('TFLAG', 'ETFLAG'):
                # the time flags of the exposed steps are those of the same
                # steps of the full file
                if k in fv and gnt is not None and (
                        a.shape[0] != gnt or not np.array_equal(
                            a, np.asarray(fv[k])[:gnt])):
                    return 'returned', 'prefix is a valid shorter %s ' \
                        'file; its %s differs from the same steps of the ' \
                        'full file (%d steps exposed)' % (fmt, k, gnt)
                continue
            if k not in alt['vars']:
                return 'returned', 'prefix is a valid %s file with ' \
                    'variables %s; reader exposes %s' % (
                        fmt, list(alt['vars']), k)
            b = alt['vars'][k]
            if np.squeeze(a).shape != np.squeeze(b).shape or \
                    np.squeeze(a).astype('f4').tobytes() != \
                    np.squeeze(b).tobytes():
                return 'returned', 'prefix is a valid shorter %s file; ' \
                    'reader exposes %s with shape %s / other values than ' \
                    'its records hold (%s)' % (fmt, k, a.shape, b.shape)
        return 'returned-valid-shorter-file', None
    if nt is None:
        # no time axis (land use): every exposed variable must be one of the
        # full file's, identical
        for k, a in got.items():
            if k not in fv or a.shape != fv[k].shape or \
                    a.astype('f4').tobytes() != fv[k].astype('f4').tobytes():
                return 'returned', 'variable %s of the truncated file is ' \
                    'not a complete variable of the full file' % k
        return 'returned', None
    if gnt is None or gnt > nt or (complete is not None and
                                   gnt > complete):
        return 'returned', 'truncated file exposes %s time steps; the ' \
            'prefix holds %s complete ones (full file %d)' % (gnt, complete,
                                                              nt)
    for k, a in got.items():
        if k not in fv:
            return 'returned', 'variable %s does not exist in the full ' \
                'file' % k
        b = fv[k]
        if a.ndim != b.ndim or a.shape[1:] != b.shape[1:] or \
                a.shape[0] != gnt:
            return 'returned', '%s has shape %s (full file %s, %d steps ' \
                'exposed)' % (k, a.shape, b.shape, gnt)
        b = b[:gnt]
        if a.dtype.kind == 'f' or b.dtype.kind == 'f':
            same = a.astype('f4').tobytes() == b.astype('f4').tobytes()
        else:
            same = np.array_equal(a, b)
        if not same:
            ne = np.argwhere(np.asarray(a) != np.asarray(b))
            i = tuple(ne[0]) if len(ne) else ()
            return 'returned', '%s differs from the full file at %d cells ' \
                '(first %s: %r vs %r) with %d of %d steps exposed' % (
                    k, len(ne), i, a[i] if len(ne) else None,
                    b[i] if len(ne) else None, gnt, nt)
    return 'returned', None


def run(spec, res):
    fmt = spec['fmt']
    if fmt == 'bpch':
        from . import c18
        return c18.run_truncation(spec, res, judge_prefix, classify,
                                  record_edges)
    if spec.get('sample'):
        from PseudoNetCDF.testcase import camxfiles_paths
        img = open(camxfiles_paths[fmt], 'rb').read()
        dec = refcamx.decode(fmt, img, spec['ny'], spec['nx'])
        spec = dict(spec, nt=dec['dims'].get('TSTEP', 1),
                    nz=dec['dims'].get('LAY', 1))
        res.facet('sample:' + fmt)
    else:
        img = refcamx.encode(spec)
    with harness.casedir() as d:
        path = os.path.join(d, 'full.' + fmt)
        with open(path, 'wb') as fh:
            fh.write(img)
        try:
            full = full_content(fmt, path, spec)
        except Exception as e:
            res.note('inconclusive:full-image-unreadable:%s' % fmt)
            res.notes.setdefault('full_image_error', repr(e))
            return
        edges = record_edges(img)
        # step boundaries: after the header block, every nrec-per-step
        nrec = len(edges)
        nt = spec['nt']
        if fmt in ('uamiv', 'lateral_boundary'):
            hdr = 4 + (4 if fmt == 'lateral_boundary' else 0)
        elif fmt == 'cloud_rain':
            hdr = 1
        else:
            hdr = 0
        hdr_end = edges[hdr - 1] if hdr else 0
        per = (nrec - hdr) // max(nt, 1)
        step_edges = set(edges[hdr - 1 + per * (i + 1)]
                         for i in range(nt)) if fmt != 'landuse' else set()
        ppath = os.path.join(d, 'cut.' + fmt)
        seen = {}
        for cut in range(1, len(img)):
            if cut % CHUNKS != spec.get('chunk', cut % CHUNKS):
                continue
            with open(ppath, 'wb') as fh:
                fh.write(img[:cut])
            # gridded files: every other chunk opens the prefix for update
            # ('r+'), where a reader that asks for more than the file holds
            # can silently GROW it
            pspec = spec
            if fmt == 'uamiv' and spec.get('chunk', 0) % 2 == 1:
                pspec = dict(spec, open_mode='r+')
            # a wind step ends with a content-free dummy record: its data
            # are complete once the last V record is
            data_edges = step_edges if fmt != 'wind' else set(
                edges[hdr - 1 + per * (i + 1) - 1] for i in range(nt))
            outcome, problem = judge_prefix(
                fmt, ppath, pspec, full, prefix=img[:cut],
                complete=(sum(1 for e_ in data_edges if e_ <= cut)
                          if fmt != 'landuse' else None))
            res.hook('prefix.open')
            res.hook('oracle.compare')
            if pspec is not spec:
                res.facet('open-mode:r+')
                if os.path.getsize(ppath) != cut:
                    # (update mode may write; what the property judges is
                    # what the reader then presents)
                    res.note('prefix-grown-by-open:r+')
            cls = classify(cut, edges, step_edges, hdr_end)
            res.ev(digest([spec, cut]), True,
                   ['fmt:' + fmt, 'cut:' + cls, 'outcome:' + outcome])
            if problem:
                key = (outcome, cls)
                seen[key] = seen.get(key, 0) + 1
                if seen[key] <= 2:
                    res.viol('%s:%s:%s' % (
                        'no-termination' if outcome == 'hang'
                        else 'silent-misread', fmt, cls),
                        '%s image of %d bytes (nt=%d nz=%d ny=%d nx=%d) cut '
                        'at byte %d (%s): %s' % (
                            fmt, len(img), spec['nt'], spec['nz'],
                            spec['ny'], spec['nx'], cut, cls, problem),
                        fmt=fmt, cut=cut, cutclass=cls, outcome=outcome,
                        nt=spec['nt'], nz=spec['nz'], size=len(img))
        res.notes['max_backward_jumps_of_a_terminating_open'] = max(
            MAXCOUNT, res.notes.get(
                'max_backward_jumps_of_a_terminating_open', 0))
        for (outcome, cls), n in seen.items():
            if n > 2:
                res.note('more-witnesses:%s:%s:%s' % (fmt, outcome, cls),
                         n - 2)
