"""C01 -- every operation yields a structurally well-formed file.

Monitor: return/raise of every operation of random chained programs over core
and IOAPI files; oracle wellformed() on the REAL post-state of each step."""
import numpy as np

from .. import gen_core, gen_ioapi, harness, ops, readerfiles, snapshot
from ..cli import digest

PROP = 'C01'
LEVEL = 'exploration'
RULE = ('random programs of 1-6 chained public operations (copy, slice, apply,'
        ' stack, subset, rename var/dim, insert/remove/reorder dimension, '
        'mask, eval, arithmetic, interpolate; every third core program also '
        'draws from the functional forms slice_dim, reduce_dim, convolve_dim, '
        'getvarpnc, removesingleton, pncrename, splitdim, pncexpr, merge, '
        'stack_files; pointwise selections with 2-4 index lists; renames '
        'with copyall=False and onto existing names) over generated core files '
        '(differing dimension subsets, masks, scalars, length-1 and unlimited '
        'dimensions, coordinate variables) and IOAPI files (from_arrays, '
        'GRIDDESC with and without CF coordinates); the well-formedness'
        ' oracle runs on the real result of every step and on every '
        'constructor; one further case runs the repository\'s own test '
        'suite with the same oracle on every outermost public operation '
        '(bundled sample files, the maintainers\' call patterns); every '
        'eighth receiver is the object one of the library\'s READERS returns '
        'for a valid image written by the independent codecs (all CAMx '
        'memory-mapped and record readers, bpch1, bpch2, arlpackedbit, '
        'ffi1001): the reader\'s file is judged, then a program runs on it. '
        'evaluations = operation returns/raises monitored; a step '
        'is non-trivial when the operation returned a file with >= 1 variable;'
        ' distinct = digest of (operation description, input file digest).')
RULE += (" After a program on a receiver opened from disk the source is closed: every file obtained from it must still be well-formed. Reader receivers are also opened with the readers' rarely used keywords (bpch timeslice / noscale / nogroup, ARL cache).")
RULE += (' One plain receiver from disk in three is written with netCDF4 directly, as other tools write archive files (float data variables packed as int16 with scale_factor/add_offset, masks as _FillValue).')
RULE += (' One program in forty starts from a file written by other software in which an integer variable has missing cells and no missing code of its own, with a pointwise selection (two index lists) that includes such a cell; insertDimension also with a dimension that exists.')
ASSUMPTIONS = [
    'in-domain = arguments generated from the file at hand: existing '
    'dimensions/variables, in-range indices, conforming operands, numeric '
    'dtypes for reducers/arithmetic/mask, strictly monotonic 1-D coordinate '
    'for interpolation',
    'plotting/map/projection helpers (matplotlib/pyproj) are not driven',
]
HOOKS = ['op.return', 'wellformed.eval', 'constructor.eval',
         'suite.op.return']
MIN_DISTINCT = {'quick': 800, 'thorough': 10000}
N = {'quick': 1500, 'thorough': 40000}
FACETS_REQUIRED = {t: ['op:' + k for k in list(ops.CORE_OPS) +
                       list(ops.FN_OPS)] + ['file:ioapi', 'file:core',
                                             'file:reader']
                   for t in ('quick', 'thorough')}


def ncases(tier):
    return N[tier] + 1      # + the repository's own suite under monitors


def gen(rng, idx, tier, seed):
    if idx >= N[tier]:
        return {'suite': True}
    if idx % 8 == 5:
        # the receiver is what one of the library's readers returns for a
        # valid image written by the independent codecs
        fs = {'reader': readerfiles.gen_spec(rng, idx=idx // 8)}
    elif idx % 4 == 3:
        fs = {'ioapi': gen_ioapi.gen_spec(rng)}
    else:
        fs = {'core': gen_core.gen_filespec(rng, bounds_prob=0.3)}
    points = None
    if idx % 40 == 22:
        # a file written by other software in which an integer variable has
        # missing cells and no missing code of its own; the program starts
        # with a pointwise selection over that variable's two dimensions
        big = [d for d in fs['core']['dims'] if d[1] >= 2]
        if len(big) >= 2:
            d0, d1 = big[0], big[1]
            nm = next(n for n in ('pts', 'pm', 'cnt', 'flag', 'q')
                      if harness.zlib_crc(n) % 2 == 0)
            fs['core']['vars'].append({
                'name': nm, 'dims': [d0[0], d1[0]],
                'dtype': str(rng.choice(['i4', 'i2'])), 'kind': 'data',
                'mask': 'random', 'fill': -999,
                'seed': int(rng.integers(1 << 30)), 'attrs': []})
            n = int(rng.integers(1, 6))
            l0 = [int(x) for x in rng.integers(0, d0[1], n)]
            l1 = [int(x) for x in rng.integers(0, d1[1], n)]
            # (one of the points is a missing cell, where there is one)
            vs = fs['core']['vars'][-1]
            mk = np.argwhere(gen_core.maskfor(vs['seed'], (d0[1], d1[1]),
                                              'random'))
            if len(mk):
                l0[0], l1[0] = int(mk[0][0]), int(mk[0][1])
            points = {d0[0]: {'l': l0}, d1[0]: {'l': l1}}
    return {'file': fs, 'points': points,
            'prog_seed': int(rng.integers(1 << 30)),
            'nops': int(rng.integers(1, 7)),
            # every third program of plain files mixes in the functional
            # forms of core/_functions.py
            'fn': bool(idx % 3 == 0 and 'core' in fs),
            # the receiver is a file on disk (saved, then opened again)
            'disk': bool(idx % 5 == 2)}


def build(fs):
    if 'ioapi' in fs:
        return gen_ioapi.build(fs['ioapi'])
    return gen_core.build(fs['core'])


def unlimited_rule(before_dims, out, ioapi):
    bad = []
    for k, (ln, unl) in before_dims.items():
        if k in out.dimensions:
            now = bool(out.dimensions[k].isunlimited())
            if ioapi and k == 'TSTEP':
                continue
            if now != unl:
                bad.append('dimension %s unlimited flag %s -> %s'
                           % (k, unl, now))
    if ioapi and 'TSTEP' in out.dimensions and \
            not out.dimensions['TSTEP'].isunlimited():
        bad.append('IOAPI result: TSTEP is not unlimited')
    return bad


def run_suite(spec, res):
    """the repository's own test suite as workload (bundled sample files,
    the maintainers' call patterns), with the well-formedness monitor on
    every outermost public operation that returns a file"""
    from .. import harness
    r = harness.run_suite_monitored()
    if not r or not r.get('counts'):
        res.note('inconclusive:suite-monitor-observed-nothing')
        return
    n = sum(r['counts'].values())
    res.hook('suite.op.return', n)
    res.hook('wellformed.eval', n)
    res.notes['suite_monitored_returns'] = n
    for op, c in r['counts'].items():
        res.facet('suite-op:' + op, c)
    res.ev(digest(['suite', sorted(r['counts'].items())]), True, 'suite')
    for v in r['violations']:
        if v['prop'] != 'C01':
            continue
        res.viol('suite-malformed-result:' + v['op'],
                 'in the repository test %s: %s on a %s returned a malformed '
                 'file: %s' % (v['test'], v['op'], v['receiver'],
                               '; '.join(v['problems'][:4])),
                 op=v['op'], test=v['test'])


def run(spec, res):
    if spec.get('suite'):
        return run_suite(spec, res)
    from .. import harness
    with harness.casedir() as d, harness.handles() as h:
        run_in(spec, res, d, h)


def run_in(spec, res, d, h):
    import os
    from .. import harness
    ops.OPTIONS['zipped'] = True
    ioapi = 'ioapi' in spec['file']
    rdr = spec['file'].get('reader')
    if rdr:
        f, status = readerfiles.open_reader(rdr, d)
        res.facet('reader:%s:%s' % (rdr['kind'], status.split(':')[0]))
        if f is None:
            # whether a reader may reject this image is C09/C13/C14's
            res.note('reader-gave-no-file:' + status)
            res.ev(digest(['ctor', spec['file']]), False, 'no-receiver')
            return
        res.facet('file:reader')
    else:
        f = build(spec['file'])
        res.facet('file:ioapi' if ioapi else 'file:core')
    if spec.get('disk') and not rdr:
        import PseudoNetCDF as pnc
        try:
            path = os.path.join(d, 'src.nc')
            wrote = False
            if not ioapi and (spec['prog_seed'] % 3 == 0 or
                              spec.get('points')):
                # written with netCDF4 directly, as other tools write
                # archive files (packed variables)
                try:
                    harness.write_foreign(f, path)
                    wrote = True
                    res.facet('source:disk-written-by-netCDF4-packed')
                except Exception:
                    if os.path.exists(path):
                        os.remove(path)
            if not wrote:
                h.keep(f.save(path, format='NETCDF4', verbose=0)).close()
            f = h.keep(pnc.pncopen(path, format='ioapi' if ioapi
                                   else 'netcdf'))
            res.facet('source:disk')
        except Exception as e:
            # saving is C07's business
            res.note('disk-source-unavailable:%s' % type(e).__name__)
            f = build(spec['file'])
    bad = snapshot.wellformed(f)
    if ioapi and 'TSTEP' in f.dimensions and \
            not f.dimensions['TSTEP'].isunlimited():
        bad.append('IOAPI file: TSTEP is not unlimited')
    res.hook('constructor.eval')
    res.ev(digest(['ctor', spec['file']]), len(list(f.variables.keys())) > 0,
           'ctor')
    if bad:
        if rdr:
            res.viol('reader-malformed:' + rdr['kind'],
                     'the file %s returns for a valid image is malformed: %s'
                     % (rdr['kind'], '; '.join(bad[:5])),
                     reader=rdr['kind'], problems=bad[:8])
        else:
            res.viol('constructor-malformed', '; '.join(bad[:5]))
        return
    trace = []
    results = []
    source = f

    def on_step(phase, st, pre):
        if phase == 'before':
            recv = st.inputs[0]
            if ops.is_ioapi(recv) and gen_ioapi.coherent(recv):
                # operations on IOAPI files are documented for files that
                # follow the convention; an incoherent input (C10's business)
                # puts the call outside the domain for C01
                st.in_domain = False
            return {'dims': {k: (len(d), bool(d.isunlimited()))
                             for k, d in recv.dimensions.items()},
                    'dig': snapshot.file_digest_bytes(
                        snapshot.snap_file(recv))}
        res.hook('op.return')
        res.facet('op:' + st.op)
        trace.append(st.desc)
        dg = digest([st.desc, pre['dig']])
        if st.exc is not None:
            res.ev(dg, False, 'raised')
            if st.in_domain:
                import traceback
                tb = ''.join(traceback.format_exception(
                    type(st.exc), st.exc, st.exc.__traceback__))[-1200:]
                res.viol('in-domain-raise:%s:%s' % (st.op, type(st.exc).__name__),
                         '%s raised %r after %s\n%s' % (st.desc, st.exc,
                                                       trace[:-1], tb),
                         op=st.op, exc=type(st.exc).__name__, meta=st.meta,
                         excmsg=str(st.exc)[:300],
                         reader=rdr['kind'] if rdr else None)
            return
        out = st.result
        res.hook('wellformed.eval')
        bad = snapshot.wellformed(out)
        bad += unlimited_rule(pre['dims'], out, ops.is_ioapi(out))
        if st.op == 'renamedim':
            # a renamed dimension survives under its new name
            o, n = st.meta['old'], st.meta['new']
            if n not in out.dimensions:
                bad.append('renamed dimension %s missing' % n)
            elif bool(out.dimensions[n].isunlimited()) != pre['dims'][o][1]:
                bad.append('dimension %s renamed to %s: unlimited flag %s '
                           '-> %s' % (o, n, pre['dims'][o][1],
                                      bool(out.dimensions[n].isunlimited())))
            elif len(out.dimensions[n]) != pre['dims'][o][0]:
                bad.append('dimension %s renamed to %s: length changed'
                           % (o, n))
        res.ev(dg, len(list(out.variables.keys())) > 0)
        if not bad and st.in_domain and st.op != 'fn_pncexpr':
            results.append((st.desc, out))
        if bad:
            # a malformed file is not a valid input for the next operation:
            # the program ends here (one defect, one report)
            st.meta['stop'] = True
            res.viol('malformed-result:' + st.op, '%s -> %s (program %s)'
                     % (st.desc, '; '.join(bad[:5]), trace), op=st.op,
                     meta=st.meta, problems=bad[:8],
                     reader=rdr['kind'] if rdr else None)

    allowed = None
    if spec.get('fn'):
        allowed = list(ops.CORE_OPS) + list(ops.FN_OPS) * 2
    first = None
    if spec.get('points') and all(k in f.dimensions for k in spec['points']):
        def first(cur):
            return ops.op_points(cur, spec['points'])
    ops.run_program(f, spec['prog_seed'], spec['nops'], allowed=allowed,
                    on_step=on_step, first=first)
    if results and ops.on_disk(source) and hasattr(source, 'close'):
        # the files obtained from a file on disk are files of their own:
        # they stay well-formed when that file is closed
        ok0 = [(dsc, o) for dsc, o in results if not snapshot.wellformed(o)]
        try:
            source.close()
        except Exception:
            return
        res.hook('wellformed.eval', len(ok0))
        for dsc, o in ok0:
            bad = snapshot.wellformed(o)
            if bad:
                res.viol('malformed-after-source-closed:' + dsc.split('(')[0],
                         'after closing the source file (opened from disk) '
                         'the file %s returned earlier is malformed: %s '
                         '(program %s)' % (dsc, '; '.join(bad[:4]), trace),
                         op=dsc.split('(')[0], problems=bad[:8])
                break
