"""C02 -- dimension slicing selects exactly the requested hyperslab.

Monitor: call/return of sliceDimensions on the real class; oracle = orthogonal
per-axis selection (np.take / basic slices) on the pre-call snapshot."""
import itertools

import numpy as np

from .. import gen_core, gen_ioapi, harness, readerfiles, refsel, snapshot
from ..cli import digest

PROP = 'C02'
LEVEL = 'exploration'
RULE = ('random core files (variables with differing dimension subsets, masks,'
        ' coordinate variables) x random selector assignments (int incl. '
        'negative, slices incl. empty/reversed/out-of-range, index lists with '
        'repeats/negatives; zipped equal-length lists) over random dimension '
        'subsets in shuffled keyword order; one case in four through the '
        'string form slice_dim, one in six on IOAPI files; thorough adds the exhaustive 9^3 '
        'selector menu on a (2,3,4) file. A case is non-trivial when at least '
        'one variable has a selected dimension and the selection is not the '
        'identity; distinct = distinct (file spec, selectors) digests.')
RULE += (" Every tenth receiver is the object one of the library's READERS returns for a valid image written by the independent codecs (CAMx memory-mapped and record readers, bpch1, bpch2, arlpackedbit, ffi1001); the call is drawn from the dimensions of the open file and judged by the same oracle on a snapshot of that file.")
RULE += (' One receiver from disk in three (plain files) is written with netCDF4 directly, as other tools write archive files: float data variables packed (int16 with scale_factor/add_offset), masks as _FillValue; the oracle snapshots what the opened file delivers.')
RULE += (' One case in 25: two index lists of one length (points) over a variable of a foreign file that has missing cells and no missing code of its own, one of the points being such a cell.')
RULE += (' One case in 25 zips two dimensions that are not neighbours in a four-dimensional variable (a, z1, b, z2), with and without a slice / an integer on the others.')
ASSUMPTIONS = [
    'oracle = numpy take/basic slicing applied axis by axis to plain copies',
    'index values are drawn inside [-n, n-1] (in-domain); out-of-range '
    'integers/lists are not demanded to do anything but raise',
    'attribute order and fill_value encoding are not demanded, attribute '
    'names and values are',
]
HOOKS = ['sliceDimensions.return', 'slice_dim.return', 'oracle.compare']
FACETS_REQUIRED = {t: ['form:method', 'form:slice_dim', 'file:ioapi',
                       'file:core']
                   for t in ('quick', 'thorough')}
MIN_DISTINCT = {'quick': 500, 'thorough': 5000}
N = {'quick': 3000, 'thorough': 60000}
MENU_FILES = 4  # thorough: exhaustive menu on this many (2,3,4) files
MENU = [{'i': 0}, {'i': -1}, {'s': [None, None, None]}, {'s': [1, None, None]},
        {'s': [None, None, -1]}, {'s': [0, 0, None]}, {'l': [0]},
        {'l': [1, 0]}, {'l': [-1, 0, 0]}]
EXHAUSTIVE = {}


def ncases(tier):
    n = N[tier]
    if tier == 'thorough':
        n += MENU_FILES * len(MENU) ** 3
    return n


def menu_filespec(k):
    dn = ['time', 'LAY', 'x'] if k % 2 == 0 else ['da', 'db', 'dc']
    dims = [[dn[0], 2, k % 2 == 0], [dn[1], 3, False], [dn[2], 4, False]]
    vars_ = [
        {'name': 'v0', 'dims': dn, 'dtype': 'f4', 'kind': 'data',
         'mask': 'random' if k >= 2 else 'none',
         'fill': -999.0 if k >= 2 else None, 'seed': 11 + k, 'attrs':
         [['units', 'ppb']]},
        {'name': 'v1', 'dims': [dn[0], dn[2]], 'dtype': 'i4', 'kind': 'data',
         'mask': 'none', 'fill': None, 'seed': 21 + k, 'attrs': []},
        {'name': 'v2', 'dims': [dn[1]], 'dtype': 'f8', 'kind': 'data',
         'mask': 'none', 'fill': None, 'seed': 31 + k, 'attrs': []},
        {'name': dn[2], 'dims': [dn[2]], 'dtype': 'f8',
         'kind': 'asc_nonuniform', 'mask': 'none', 'fill': None,
         'seed': 41 + k, 'attrs': []},
    ]
    return {'dims': dims, 'vars': vars_, 'attrs': [['title', 'menu']],
            'coords': []}


def gen(rng, idx, tier, seed):
    if idx >= N[tier]:
        j = idx - N[tier]
        k, j = divmod(j, len(MENU) ** 3)
        a, r = divmod(j, len(MENU) ** 2)
        b, c = divmod(r, len(MENU))
        fs = menu_filespec(k)
        dn = [d[0] for d in fs['dims']]
        sel = [[dn[0], MENU[a]], [dn[1], MENU[b]], [dn[2], MENU[c]]]
        # lists of unequal length are outside the documented domain
        return {'file': fs, 'sel': sel, 'menu': True}
    if idx % 25 == 11:
        # points (two index lists of one length) taken from a file written
        # by other software, in which an integer variable on the two indexed
        # dimensions has missing cells and no missing code of its own
        fs = gen_core.gen_filespec(rng, allow_char=False)
        big = [d for d in fs['dims'] if d[1] >= 2]
        if len(big) >= 2:
            d0, d1 = big[0], big[1]
            nm = next(n for n in ('pts', 'pm', 'cnt', 'flag', 'q')
                      if harness.zlib_crc(n) % 2 == 0)
            fs['vars'].append({
                'name': nm, 'dims': [d0[0], d1[0]],
                'dtype': str(rng.choice(['i4', 'i2'])), 'kind': 'data',
                'mask': 'random', 'fill': -999,
                'seed': int(rng.integers(1 << 30)), 'attrs': []})
            n = int(rng.integers(1, 6))
            l0 = [int(x) for x in rng.integers(0, d0[1], n)]
            l1 = [int(x) for x in rng.integers(0, d1[1], n)]
            # (one of the points is a missing cell, where there is one)
            mk = np.argwhere(gen_core.maskfor(fs['vars'][-1]['seed'],
                                              (d0[1], d1[1]), 'random'))
            if len(mk):
                l0[0], l1[0] = int(mk[0][0]), int(mk[0][1])
            sel = [[d0[0], {'l': l0}], [d1[0], {'l': l1}]]
            return {'file': fs, 'sel': sel, 'disk': True,
                    'foreign': 'always', 'as_array': bool(rng.random() < .3)}
    if idx % 25 == 16:
        # points over two dimensions that are NOT neighbours in a variable
        # that has another dimension in front of them (a, z1, b, z2): the
        # new POINTS axis stands where z1 stood
        for _ in range(6):
            fs = gen_core.gen_filespec(rng, allow_char=False)
            if len(fs['dims']) >= 4:
                break
        if len(fs['dims']) >= 4:
            d = fs['dims'][:4]
            fs['vars'].append({
                'name': 'quad', 'dims': [x[0] for x in d],
                'dtype': str(rng.choice(['f8', 'i4', 'f4'])), 'kind': 'data',
                'mask': str(rng.choice(['none', 'random'])), 'fill': -999,
                'seed': int(rng.integers(1 << 30)), 'attrs': []})
            n = int(rng.integers(2, 5))
            sel = [[d[1][0], {'l': [int(x) for x in
                                    rng.integers(-d[1][1], d[1][1], n)]}],
                   [d[3][0], {'l': [int(x) for x in
                                    rng.integers(-d[3][1], d[3][1], n)]}]]
            r = rng.random()
            if r < 0.3:
                sel.append([d[2][0], {'s': [None, None, None]}])
            elif r < 0.5:
                sel.append([d[0][0], {'i': int(rng.integers(0, d[0][1]))}])
            return {'file': fs, 'sel': [sel[i] for i in
                                        rng.permutation(len(sel))],
                    'disk': bool(rng.random() < 0.3),
                    'as_array': bool(rng.random() < .3)}
    if idx % 10 == 7:
        # the receiver is what a library reader returns for a valid image;
        # the selection is drawn from its dimensions once it is open
        return {'file': {'reader': readerfiles.gen_spec(rng, idx=idx // 10)},
                'sel_seed': int(rng.integers(1 << 30)), 'idx': idx}
    ioapi = idx % 6 == 5
    if ioapi:
        isp = gen_ioapi.gen_spec(rng, maxn=5)
        fs = {'ioapi': isp}
        dims = [['TSTEP', isp['nt'], True], ['LAY', isp['nz'], False]]
        if isp['kind'] == 'grid':
            dims += [['ROW', isp['ny'], False], ['COL', isp['nx'], False]]
        else:
            dims += [['PERIM', 2 * (isp['ny'] + isp['nx']) + 4, False]]
    else:
        fs = gen_core.gen_filespec(rng, allow_char=False)
        dims = fs['dims']
    spec = gen_sel(rng, dims, idx, ioapi)
    spec['file'] = fs
    return spec


def gen_sel(rng, dims, idx, ioapi):
    nd = len(dims)
    nsel = int(rng.integers(1, nd + 1))
    chosen = [dims[i] for i in rng.permutation(nd)[:nsel]]
    # stratify selector kinds: cycle through all ordered kind pairs
    kinds = ['i', 's', 'l']
    pair = list(itertools.product(kinds, kinds))[idx % 9]
    sel = []
    zipL = None
    want_zip = rng.random() < 0.25
    for j, (name, ln, _) in enumerate(sorted(
            chosen, key=lambda d: [x[0] for x in dims].index(d[0]))):
        k = pair[j] if j < 2 else str(rng.choice(kinds))
        s = refsel.gen_selector(rng, ln, kinds=(k,))
        if 'l' in s:
            if want_zip:
                if zipL is None:
                    zipL = len(s['l'])
                else:
                    s = {'l': [int(x) for x in rng.integers(-ln, ln, zipL)]}
            else:
                if zipL is None:
                    zipL = -1
                else:
                    # a second list of any length is the zipped form; keep the
                    # call in-domain by making it a slice instead
                    s = refsel.gen_selector(rng, ln, kinds=('s',))
        if ioapi and 's' in s:
            # IOAPI files: time windows run forward with unit stride and no
            # selection is empty (the result stays an IOAPI file)
            if name == 'TSTEP' and s['s'][2] not in (None, 1):
                s['s'][2] = None
            if refsel.sel_len(s, ln) == 0:
                s = {'s': [None, None, None]}
        sel.append([name, s])
    order = rng.permutation(len(sel))
    sel = [sel[i] for i in order]
    spec = {'sel': sel}
    # the receiver is a file on disk (saved, opened again)
    spec['disk'] = bool(idx % 5 == 1 and not spec.get('form'))
    lists = [s_ for _, s_ in sel if 'l' in s_]
    if lists and rng.random() < 0.4:
        # index lists handed over as integer arrays; one array OBJECT serves
        # every dimension it is valid for (as in f.sliceDimensions(y=i, x=i))
        spec['as_array'] = True
        if len(lists) > 1 and rng.random() < 0.6:
            lens_ = {d[0]: d[1] for d in dims}
            nmin = min(lens_[d_] for d_, s_ in sel if 'l' in s_)
            shared = [int(x) for x in rng.integers(-nmin, nmin,
                                                   len(lists[0]['l']))]
            for s_ in lists:
                s_['l'] = list(shared)
    if idx % 4 == 3 and not ioapi and not any('l' in s_ for _, s_ in sel):
        # the command-line string form: one slice_dim call per dimension
        spec['form'] = 'slice_dim'
    return spec


def slice_string(d, s):
    """selector -> the 'dim,start,stop,stride' / 'dim,index' string"""
    if 'i' in s:
        return '%s,%d' % (d, s['i'])
    return '%s,%s,%s,%s' % ((d,) + tuple(s['s']))


def ops_on_disk(f):
    from .. import ops
    return ops.on_disk(f)


def run(spec, res):
    with harness.casedir() as d, harness.handles() as h:
        run_in(spec, res, d, h)


def run_in(spec, res, d, h):
    rdr = spec['file'].get('reader')
    if rdr:
        f, status = readerfiles.open_reader(rdr, d)
        res.facet('reader:%s:%s' % (rdr['kind'], status.split(':')[0]))
        if f is None or snapshot.wellformed(f):
            # (a malformed reader file is C01's finding)
            res.note('reader-gave-no-file:' + status)
            return
        res.facet('source:reader')
        from .. import ops
        used = ops.dims_used(f)
        dims = [[k, len(dm), bool(dm.isunlimited())]
                for k, dm in f.dimensions.items()
                if k in used and len(dm) > 0 and
                k not in ('VAR', 'DATE-TIME')]
        if not dims:
            return
        spec = dict(spec, **gen_sel(
            np.random.default_rng([spec['sel_seed'], 77]), dims, spec['idx'],
            ops.is_ioapi(f)))
        spec['disk'] = False
        spec.pop('form', None)
        return run_file(spec, res, d, h, f, ops.is_ioapi(f))
    ioapi = 'ioapi' in spec['file']
    f = gen_ioapi.build(spec['file']['ioapi']) if ioapi else \
        gen_core.build(spec['file'])
    return run_file(spec, res, d, h, f, ioapi)


def run_file(spec, res, d, h, f, ioapi):
    rdr = spec['file'].get('reader')
    if ioapi and not rdr and spec['file']['ioapi']['seed'] % 3 == 0:
        # attributes are carried over as they are: a descriptive long_name
        # (not the padded variable name the IOAPI class writes by default)
        k0 = spec['file']['ioapi']['names'][0]
        f.variables[k0].long_name = 'Descriptive name'
        f.variables[k0].var_desc = 'free text about the variable'.ljust(80)
        res.facet('ioapi:custom-long_name')
    if spec.get('disk'):
        g = harness.to_disk(f, d, h, res=res,
                            foreign=spec.get('foreign', True),
                            fmt='ioapi' if ioapi else 'netcdf')
        if g is not None:
            f = g
            res.facet('source:disk')
    before = snapshot.snap_file(f)
    seld = {d: s for d, s in spec['sel']}
    kw = {d: refsel.dec_sel(s) for d, s in spec['sel']}
    arrs = {}
    if spec.get('as_array'):
        pool = {}
        for d, s_ in spec['sel']:
            if 'l' in s_:
                key = tuple(s_['l'])
                if key not in pool:
                    pool[key] = np.array(s_['l'], dtype='i8')
                kw[d] = pool[key]
                arrs[d] = (pool[key], list(s_['l']))
    file_lists = [d for d, s in spec['sel'] if refsel.is_list(s)]
    lens = {len(seld[d]['l']) for d in file_lists}
    in_domain = len(lens) <= 1 or len(file_lists) <= 1
    kinds = tuple(sorted(refsel.kind(s) for s in seld.values()))
    facet = ['kinds:' + ''.join(kinds), 'file:ioapi' if ioapi else 'file:core']
    if spec.get('as_array'):
        facet.append('lists-as-arrays')
    if len(file_lists) > 1:
        facet.append('zipped')
    form = spec.get('form', 'method')
    facet.append('form:' + form)
    try:
        if form == 'slice_dim':
            from PseudoNetCDF.core._functions import slice_dim
            out = f
            for d, s_ in spec['sel']:
                out = slice_dim(out, slice_string(d, s_))
                res.hook('slice_dim.return')
        else:
            out = f.sliceDimensions(**kw)
    except Exception as e:
        res.hook('sliceDimensions.return')
        if in_domain and isinstance(e, IndexError) and any(
                np.dtype(vs.dtype).kind == 'U' and vs.mask is None and any(
                    d_ in seld and refsel.sel_len(
                        seld[d_], before.dims[d_][0]) == 0
                    for d_ in vs.dims)
                for vs in before.vars.values()) and ops_on_disk(f):
            # netCDF4 itself cannot read an empty selection of a string
            # variable (IndexError inside Variable._get)
            res.ev(digest(spec), False, 'out-of-domain-raise')
            res.note('out-of-domain:empty-selection-of-netcdf-string')
            return
        if in_domain:
            res.ev(digest(spec), True, facet + ['raised'])
            res.viol('in-domain-raise', '%s(%s) raised %r'
                     % ('sliceDimensions' if form == 'method' else form,
                        spec['sel'], e), exc=type(e).__name__, form=form)
        else:
            res.ev(digest(spec), False, 'out-of-domain-raise')
        return
    res.hook('sliceDimensions.return')
    if not in_domain:
        bad = snapshot.wellformed(out)
        res.ev(digest(spec), False, 'out-of-domain-returned')
        if bad:
            res.viol('out-of-domain-malformed', '; '.join(bad[:4]))
        return
    dlen = {k: v[0] for k, v in before.dims.items()}
    problems = []
    # dimensions
    for d, (ln, unl) in before.dims.items():
        if ioapi and d == 'VAR':
            continue   # variable-list bookkeeping of the IOAPI class (C10)
        want = refsel.sel_len(seld[d], ln) if d in seld else ln
        if d not in out.dimensions:
            if ioapi and len(file_lists) > 1 and d in file_lists:
                continue   # replaced by the new point dimension
            problems.append('dimension %s missing from result' % d)
        elif len(out.dimensions[d]) != want:
            problems.append('dimension %s has length %d, expected %d'
                            % (d, len(out.dimensions[d]), want))
    nontrivial = False
    for name, vs in before.vars.items():
        if name not in out.variables:
            problems.append('variable %s missing from result' % name)
            continue
        mysel = {d: seld[d] for d in vs.dims if d in seld}
        edims, edata, emask = refsel.ref_select(
            vs.data, vs.mask, vs.dims, mysel, file_lists)
        if mysel and (edata.shape != vs.data.shape or
                      edata.tobytes() != vs.data.tobytes()):
            nontrivial = True
        got = snapshot.snap_var(out.variables[name])
        res.hook('oracle.compare')
        if ioapi and name in ('TFLAG', 'ETFLAG'):
            # the IOAPI class rebuilds TFLAG's VAR axis from its variable
            # list (C10); what slicing owes is the selected time stamps.  A
            # pointwise selection dissolves the grid and is not judged here.
            if len(file_lists) > 1:
                continue
            res.facet('tflag-judged')
            if got.data.ndim != 3 or got.data.shape[1] < 1 or \
                    got.data.shape[0] != edata.shape[0] or not np.array_equal(
                        got.data[:, 0, :], edata[:, 0, :]):
                problems.append('TFLAG: time stamps %s, expected the '
                                'selected stamps %s' % (
                                    got.data[:, :1, :].tolist()[:6],
                                    edata[:, :1, :].tolist()[:6]))
            continue
        problems += snapshot.check_var(
            got, name, dims=edims, data=edata, mask=emask, attrs=vs.attrs,
            dtype=vs.dtype,
            # _FillValue is how a file on disk encodes the mask
            attr_ignore=['_FillValue', 'fill_value'] if spec.get('disk')
            else [])
    for name in out.variables.keys():
        if name not in before.vars:
            problems.append('unexpected variable %s in result' % name)
    for d, (a, orig) in arrs.items():
        if a.tolist() != orig:
            problems.append('the index array passed for %s was modified by '
                            'the call: %s -> %s' % (d, orig, a.tolist()))
    if len(file_lists) > 1:
        L = lens.pop()
        if 'POINTS' not in out.dimensions or len(
                out.dimensions['POINTS']) != L:
            problems.append('new dimension POINTS missing or of wrong length')
    res.ev(digest(spec), nontrivial, facet)
    if problems:
        vdimsets = {n: v.dims for n, v in before.vars.items()}
        res.viol('wrong-selection' if form == 'method' else
                 'wrong-selection:' + form, '; '.join(problems[:6]),
                 sel=spec['sel'], vdims=vdimsets, form=form)
