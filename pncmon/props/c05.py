"""C05 -- isolation: inputs never modified, results never alias, closing is
local.

Three monitors:
 program  : around every op of random programs -- bit-exact snapshot of the
            receiver and argument files before/after (input unchanged), then a
            behavioural alias test: write sentinels into every variable of the
            result and re-compare the inputs.
 query    : the same snapshot discipline around every query (time decoding,
            value/time lookup, repr/dump, save, metadata getters).
 schedule : offline-enumerated open/close/close-again/drop/gc/reopen
            histories over 2-3 disk-backed files; after EVERY step every file
            the model says is open is read and compared with its digest.
"""
import datetime
import gc
import io
import itertools
import os

import numpy as np

from .. import gen_core, gen_ioapi, harness, ops, readerfiles, snapshot
from ..cli import digest

PROP = 'C05'
LEVEL = 'exploration'
RULE = ('suite: the repository\'s own test suite with receiver and '
        'file arguments digested around every outermost public operation; '
        'program: random chained operations (methods, functional forms of '
        'core/_functions.py, pointwise selections) on core and IOAPI files with a '
        'deep snapshot of every input before/after each operation and a '
        'write-sentinel alias test on every result; query: 20 query kinds '
        '(getTimes incl. bounds, val2idx all methods, time2idx, time2t, '
        'date2num, repr/str, dump, save, getVarlist(update=False), '
        'audit_meta, getCoords, getncatts) on CF-time, IOAPI and '
        'time-independent GRIDDESC files; schedule: ALL legal sequences of '
        'open/close/drop/gc steps up to the tier bound over 2 disk-backed '
        'netCDF files (quick: length<=5; thorough: length<=7) plus random '
        'longer sequences over 3 files (netCDF, IOAPI-netCDF, memory-mapped '
        'uamiv and bpch among them), with the cyclic GC disabled and, in a '
        'second pass, with gc.set_threshold(1,1,1). evaluations = monitored '
        'operation/query returns + schedule steps at which open files were '
        're-read; distinct = digests of (operation, input digest) resp. of '
        'the schedule.')
RULE += (' Queries also run on receivers written to disk and reopened (a file that cannot be read after the query is a violation); interpSigma also with a model top of its own; programs on IOAPI files whose TFLAG was supplied by the caller.')
RULE += (" Every eighth program and every fifth query starts from the object one of the library's READERS returns for a valid image written by the independent codecs (all CAMx memory-mapped and record readers, bpch1, bpch2, arlpackedbit, ffi1001); the gridded, boundary, land-use and bpch1 memory maps are opened for update (mode='r+') in half of those programs, so that anything sharing the map could change the receiver.")
RULE += (' What a query returns is written into and the query repeated: the second answer must equal the first (no hidden state shared with the answer). After a program on a receiver opened from disk the source is closed: the files derived from it must be unchanged.')
RULE += (' One receiver from disk in three (plain files) is written with netCDF4 directly, as other tools write archive files: float data variables packed (int16 with scale_factor/add_offset), masks as _FillValue; the oracle snapshots what the opened file delivers.')
RULE += (' Attribute values of the generated files include arrays in the non-native byte order that own their data.')
RULE += (' One in-memory IOAPI receiver in six has a listed variable deleted beforehand (bookkeeping behind the variables); half of those programs start with subsetVariables.')
ASSUMPTIONS = [
    'getVarlist() with its default update=True is a documented mutator and '
    'is not treated as a query',
    'data under the mask is not observable: unmasked cells and masks are '
    'compared bit-exactly',
    'array-valued attributes shared by reference between input and result '
    'are not written to (the property speaks of writes into variables)',
    'schedule monitor: files are netCDF written with netCDF4 directly; the '
    'cyclic collector runs only at explicit gc steps (first pass)',
]
HOOKS = ['op.return', 'input-unchanged.compare', 'alias.write-test',
         'query.return', 'schedule.read-after-step', 'suite.op.return']
TECHNIQUE = ('runtime monitoring: snapshot-diff invariant at every '
             'operation/query boundary, write-sentinel alias probe, and an '
             'enumerated open/close/GC schedule checked against a '
             'usable-iff-open model')
CRASH_ATTRIBUTION = True
MIN_DISTINCT = {'quick': 1500, 'thorough': 20000}
NPROG = {'quick': 700, 'thorough': 20000}
NQUERY = {'quick': 400, 'thorough': 8000}
SCHED_LEN = {'quick': 5, 'thorough': 7}
NRANDSCHED = {'quick': 200, 'thorough': 20000}
JOBS = {'quick': 8}

ACTIONS = ['open', 'close', 'drop']


def legal_sequences(maxlen, nfiles=2):
    """all legal action sequences; state per slot: 0 none, 1 open, 2 closed"""
    out = []
    acts = [(a, i) for i in range(nfiles) for a in ACTIONS] + [('gc', -1)]

    def rec(seq, state):
        if seq:
            out.append(list(seq))
        if len(seq) >= maxlen:
            return
        for a, i in acts:
            if a == 'gc':
                if seq and seq[-1][0] == 'gc':
                    continue
                rec(seq + [(a, i)], state)
                continue
            st = state[i]
            if a == 'open' and st != 0:
                continue
            if a in ('close', 'drop') and st == 0:
                continue
            ns = list(state)
            ns[i] = {'open': 1, 'close': 2, 'drop': 0}[a]
            rec(seq + [(a, i)], tuple(ns))
    rec([], tuple([0] * nfiles))
    # a sequence that never opens anything is vacuous
    return [s for s in out if any(a == 'open' for a, _ in s)]


_SEQS = {}


def seqs(tier):
    if tier not in _SEQS:
        _SEQS[tier] = legal_sequences(SCHED_LEN[tier])
    return _SEQS[tier]


def ncases(tier):
    # + 1: the repository's own suite under the input-unchanged monitor
    return NPROG[tier] + NQUERY[tier] + len(seqs(tier)) + \
        NRANDSCHED[tier] + 1


EXHAUSTIVE = {}


def gen(rng, idx, tier, seed):
    if idx == ncases(tier) - 1:
        return {'mode': 'suite'}
    if idx < NPROG[tier]:
        if idx % 8 == 6:
            # the receiver is what a library reader returns for a valid
            # image (memory maps, lazily built variables, tables)
            fs = {'reader': readerfiles.gen_spec(rng, idx=idx // 8,
                                                 update_mode=True)}
        elif idx % 4 == 3:
            fs = {'ioapi': gen_ioapi.gen_spec(rng)}
        else:
            fs = {'core': gen_core.gen_filespec(rng, bounds_prob=0.3)}
        return {'mode': 'program', 'file': fs,
                'prog_seed': int(rng.integers(1 << 30)),
                'nops': int(rng.integers(1, 5)),
                'fn': bool(idx % 3 == 0 and 'core' in fs),
                'disk': bool(idx % 5 == 1)}
    idx -= NPROG[tier]
    if idx < NQUERY[tier] and idx % 5 == 4:
        # queries on the object a library reader returns
        return {'mode': 'query', 'kind': 'reader',
                'qseed': int(rng.integers(1 << 30)),
                'reader': readerfiles.gen_spec(rng, idx=idx // 5)}
    if idx < NQUERY[tier]:
        kind = ['cf', 'cf', 'ioapi', 'griddesc0', 'cf', 'ioapi635'][idx % 6]
        spec = {'mode': 'query', 'kind': kind,
                'qseed': int(rng.integers(1 << 30)),
                'disk': bool(idx % 4 == 1 and kind in ('cf', 'ioapi'))}
        if kind == 'cf':
            fs = gen_core.gen_filespec(
                rng, names=['time', 'x', 'y', 'lev'], coord_prob=1.0,
                maxdims=4, dtypes=['f4', 'f8', 'i4'])
            for v in fs['vars']:
                if v['kind'] != 'data':
                    v['kind'] = str(rng.choice(['asc_uniform',
                                                'asc_nonuniform',
                                                'desc_uniform',
                                                'desc_nonuniform']))
            spec['file'] = fs
            spec['units'] = str(rng.choice(
                ['hours since 2000-01-01 00:00:00', 'days since 1999-12-31',
                 'seconds since 1970-01-01 00:00:00 UTC',
                 'minutes since 2010-06-15 12:30:00']))
        elif kind in ('ioapi', 'ioapi635'):
            spec['file'] = gen_ioapi.gen_spec(rng)
        return spec
    idx -= NQUERY[tier]
    allseq = seqs(tier)
    if idx < len(allseq):
        return {'mode': 'schedule', 'seq': [list(x) for x in allseq[idx]],
                'nfiles': 2, 'hostile_gc': False, 'enumerated': True}
    # random longer sequences over 3 files
    n = int(rng.integers(8, 15))
    state = [0, 0, 0]
    seq = []
    while len(seq) < n:
        if rng.random() < 0.15:
            seq.append(['gc', -1])
            continue
        i = int(rng.integers(3))
        a = str(rng.choice(ACTIONS))
        if a == 'open' and state[i] != 0:
            continue
        if a != 'open' and state[i] == 0:
            continue
        state[i] = {'open': 1, 'close': 2, 'drop': 0}[a]
        seq.append([a, i])
    return {'mode': 'schedule', 'seq': seq, 'nfiles': 3,
            'hostile_gc': bool(rng.random() < 0.5), 'enumerated': False,
            # disk-backed files of other readers (memory maps) among them
            'kinds': [str(x) for x in rng.choice(
                ['netcdf', 'netcdf', 'ioapi', 'uamiv', 'bpch'], 3)]}


# ---------------------------------------------------------------------------
def sentinel_write(out):
    """write into every element (data, then mask) of every variable of out;
    returns a restore function"""
    saved = []
    for k in list(out.variables.keys()):
        v = out.variables[k]
        try:
            arr = v[...]
            old = (np.array(np.ma.getdata(arr), copy=True),
                   np.array(np.ma.getmaskarray(arr), copy=True)
                   if isinstance(arr, np.ma.MaskedArray) else None)
        except Exception:
            continue
        try:
            if np.dtype(v.dtype).kind in 'SU':
                v[...] = b'#'
            elif np.dtype(v.dtype).kind == 'b':
                v[...] = ~np.asarray(old[0])
            else:
                v[...] = np.asarray(old[0]) + np.asarray(7).astype(v.dtype)
            if isinstance(v, np.ma.MaskedArray):
                v[...] = np.ma.masked
            saved.append((k, old))
        except Exception:
            pass
    # dimensions are objects too: flip the unlimited flag of every
    # dimension of the result
    flipped = []
    try:
        for dk, dv in list(out.dimensions.items()):
            if hasattr(dv, 'setunlimited'):
                was = bool(dv.isunlimited())
                dv.setunlimited(not was)
                flipped.append((dv, was))
    except Exception:
        pass

    def restore():
        for dv, was in flipped:
            try:
                dv.setunlimited(was)
            except Exception:
                pass
        for k, (d, m) in saved:
            v = out.variables[k]
            try:
                if m is not None:
                    v[...] = np.ma.array(d, mask=m)
                    try:
                        v.mask = m
                    except Exception:
                        pass
                else:
                    v[...] = d
            except Exception:
                pass
    return restore, len(saved)


def run_program(spec, res):
    with harness.casedir() as d, harness.handles() as h:
        run_program_in(spec, res, d, h)


def run_program_in(spec, res, d, h):
    rdr = spec['file'].get('reader')
    if rdr:
        f, status = readerfiles.open_reader(rdr, d)
        res.facet('reader:%s:%s' % (rdr['kind'], status.split(':')[0]))
        if f is None:
            res.note('reader-gave-no-file:' + status)
            return
        res.facet('source:reader')
        if rdr.get('open_mode'):
            res.facet('source:reader-update-mode')
    elif 'ioapi' in spec['file']:
        f = gen_ioapi.build(spec['file']['ioapi'])
    else:
        f = gen_core.build(spec['file']['core'])
    if spec.get('disk') and not rdr:
        # the receiver is a file on disk (saved, opened again)
        g = harness.to_disk(f, d, h, res=res, foreign=True, fmt='ioapi' if 'ioapi' in spec['file']
                            else 'netcdf')
        if g is not None:
            f = g
            res.facet('source:disk')
    first = None
    if 'ioapi' in spec['file'] and not rdr and not ops.on_disk(f) and \
            spec['prog_seed'] % 6 == 2:
        # a receiver whose bookkeeping is behind its variables (the user
        # deleted a listed variable): still a file no operation may modify
        listed = [k for k in getattr(f, 'VAR-LIST', '').split()
                  if k in f.variables]
        try:
            if len(listed) >= 2:
                del f.variables[listed[-1]]
        except Exception:
            # (lazily built variables of a reader file cannot be deleted)
            listed = []
        if len(listed) >= 2:
            res.facet('ioapi:listed-variable-deleted-before')
            if spec['prog_seed'] % 12 == 2:
                keep = [listed[0]]

                def first(cur):
                    return 'subset', (
                        'subsetVariables(%s)' % keep,
                        (lambda: cur.subsetVariables(list(keep))), [], True,
                        {'keys': keep})
    trace = []
    derived = []
    source = f

    def on_step(phase, st, pre):
        if phase == 'before':
            return [snapshot.snap_file(x) for x in st.inputs]
        res.hook('op.return')
        trace.append(st.desc)
        dg = digest([st.desc, snapshot.file_digest_bytes(pre[0])])
        post = [snapshot.snap_file(x) for x in st.inputs]
        res.hook('input-unchanged.compare')
        for i, (a, b) in enumerate(zip(pre, post)):
            d = snapshot.diff_file(a, b)
            if d:
                res.viol('input-modified:%s' % st.op,
                         '%s modified its %s: %s (program %s)'
                         % (st.desc, 'receiver' if i == 0 else 'argument',
                            '; '.join(d[:5]), trace), op=st.op,
                         diffs=d[:8], meta=st.meta,
                         ioapi=ops.is_ioapi(st.inputs[0]))
        res.ev(dg, st.exc is None, 'op:' + st.op)
        if st.exc is not None or st.result is None:
            return
        out = st.result
        if any(out is x for x in st.inputs):
            res.note('result-is-input')
            return
        shared = []
        for k in out.variables.keys():
            ov = out.variables[k]
            for x in st.inputs:
                for ik in x.variables.keys():
                    try:
                        if np.shares_memory(np.ma.getdata(ov[...]),
                                            np.ma.getdata(
                                                x.variables[ik][...])):
                            shared.append((k, ik))
                    except Exception:
                        pass
        restore, nw = sentinel_write(out)
        res.hook('alias.write-test', nw)
        after = [snapshot.snap_file(x) for x in st.inputs]
        for i, (a, b) in enumerate(zip(post, after)):
            d = snapshot.diff_file(a, b)
            if d:
                res.viol('result-aliases-input:%s' % st.op,
                         'writing into the result of %s changed its %s: %s '
                         '(shares_memory pairs %s; program %s)'
                         % (st.desc, 'receiver' if i == 0 else 'argument',
                            '; '.join(d[:5]), shared[:4], trace),
                         op=st.op, diffs=d[:8], meta=st.meta,
                         shared=[list(p) for p in shared[:16]])
        restore()
        if st.in_domain and st.op not in ('fn_pncexpr',):
            derived.append((st.desc, out))

    allowed = None
    if spec.get('fn'):
        allowed = list(ops.CORE_OPS) + list(ops.FN_OPS) * 2
    ops.run_program(f, spec['prog_seed'], spec['nops'], allowed=allowed,
                    on_step=on_step, first=first)
    if derived and ops.on_disk(source) and hasattr(source, 'close'):
        # closing is local: the files derived from a file on disk are other
        # files, and closing the source must leave each of them as it was
        # (state right before the close: later steps may have written into
        # earlier results through aliasing that is judged elsewhere)
        snaps = []
        for desc, out in derived:
            try:
                snaps.append((desc, out, snapshot.snap_file(out)))
            except Exception:
                pass
        try:
            source.close()
        except Exception:
            return
        res.hook('close-source.recheck', len(snaps))
        for desc, out, snap0 in snaps:
            try:
                now = snapshot.snap_file(out)
                dd = snapshot.diff_file(snap0, now)
            except Exception as e:
                dd = ['no longer readable: %r' % (e,)]
            if dd:
                res.viol('close-invalidates-derived:%s' % desc.split('(')[0],
                         'after closing the source file (opened from disk), '
                         'the file %s returned earlier: %s (program %s)'
                         % (desc, '; '.join(dd[:4]), trace),
                         op=desc.split('(')[0], diffs=dd[:8])
                break


# ---------------------------------------------------------------------------
def build_query_file(spec):
    if spec['kind'] == 'cf':
        f = gen_core.build(spec['file'])
        if 'time' in f.variables:
            f.variables['time'].units = spec['units']
        else:
            n = len(f.dimensions['time']) if 'time' in f.dimensions else None
            if n is None:
                f.createDimension('time', 3)
                n = 3
            t = f.createVariable('time', 'd', ('time',))
            t.units = spec['units']
            t[:] = np.arange(n) * 1.5
        return f
    if spec['kind'] == 'ioapi':
        return gen_ioapi.build(spec['file'])
    if spec['kind'] == 'ioapi635':
        # time-independent IOAPI file as the IOAPI library writes it:
        # date flag -635 (= 0000-00-00), time 0, step 0
        f = gen_ioapi.build(spec['file'])
        f.variables['TFLAG'][:, :, 0] = -635
        f.variables['TFLAG'][:, :, 1] = 0
        f.SDATE = -635
        f.STIME = 0
        f.TSTEP = 0
        return f
    from PseudoNetCDF.cmaqfiles import griddesc
    return griddesc(
        None, GDNAM='VERIFGRID', GDTYP=2, P_ALP=33., P_BET=45., P_GAM=-97.,
        XCENT=-97., YCENT=40., XORIG=-1000., YORIG=-2000., XCELL=100.,
        YCELL=100., NCOLS=3, NROWS=2, NTHIK=1, FTYPE=1, withcf=False)


def queries_for(f, spec, rng):
    """list of (name, thunk)"""
    q = []
    q.append(('getTimes', lambda: f.getTimes()))
    q.append(('getTimes(bounds)', lambda: f.getTimes(bounds=True)))
    q.append(('repr', lambda: repr(f)))
    q.append(('str(vars)', lambda: [str(f.variables[k])
                                    for k in f.variables.keys()]))
    def dump():
        # (groups of a bpch file are dumped to stdout whatever outfile says)
        import contextlib
        with contextlib.redirect_stdout(io.StringIO()):
            f.dump(outfile=io.StringIO(), header=False)
    q.append(('dump', dump))
    q.append(('getCoords', lambda: f.getCoords()))
    q.append(('getncatts', lambda: f.getncatts()))
    q.append(('ncattrs', lambda: [getattr(f, k) for k in f.ncattrs()]))

    def save(fmt):
        def go():
            with harness.casedir() as d:
                with harness.handles() as h:
                    h.keep(f.save(os.path.join(d, 'o.nc'), format=fmt,
                                  verbose=0))
        return go
    q.append(('save:NETCDF4_CLASSIC', save('NETCDF4_CLASSIC')))
    q.append(('save:NETCDF3_CLASSIC', save('NETCDF3_CLASSIC')))
    if spec['kind'] == 'cf' or (spec['kind'] == 'reader' and
                                not ops.is_ioapi(f)):
        for dk in f.dimensions.keys():
            if dk in f.variables and f.variables[dk].dimensions == (dk,) \
                    and len(f.dimensions[dk]) >= 2 and \
                    np.dtype(f.variables[dk].dtype).kind in 'fiu':
                cv = np.asarray(f.variables[dk][...], 'f8')
                if spec['kind'] == 'reader' and not (
                        (np.diff(cv) > 0).all() or (np.diff(cv) < 0).all()):
                    continue
                vals = np.concatenate([cv, cv[:-1] + np.diff(cv) / 3.,
                                       [cv.min() - 1, cv.max() + 1]])
                for m in ('nearest', 'bounds', 'exact'):
                    q.append(('val2idx:%s' % m, (
                        lambda dk=dk, vals=vals, m=m:
                        f.val2idx(dk, vals.copy(), method=m,
                                  bounds='ignore'))))
        if 'time' in f.dimensions and len(f.dimensions['time']) >= 1:
            def t2i():
                t = f.getTimes()
                return f.time2idx(t)
            q.append(('time2idx', t2i))
            q.append(('date2num', lambda: f.date2num(f.getTimes())))
            q.append(('time2t', lambda: f.time2t(f.getTimes())))
    else:
        q.append(('getVarlist(update=False)',
                  lambda: f.getVarlist(update=False)))
        q.append(('getVarlist(str)', lambda: f.getVarlist(update=False,
                                                          retval='str')))
        q.append(('audit_meta', lambda: f.audit_meta(fail='ignore')))
        q.append(('time2t', lambda: f.time2t(f.getTimes())))
    return q


def run_query(spec, res):
    with harness.casedir() as d, harness.handles() as h:
        run_query_in(spec, res, d, h)


def run_query_in(spec, res, d, h):
    if spec['kind'] == 'reader':
        f, status = readerfiles.open_reader(spec['reader'], d)
        res.facet('query-reader:%s:%s' % (spec['reader']['kind'],
                                          status.split(':')[0]))
        if f is None:
            res.note('reader-gave-no-file:' + status)
            return
        res.facet('query-source:reader')
    else:
        f = build_query_file(spec)
    if spec.get('disk'):
        # the receiver is a file on disk (saved, opened again)
        g = harness.to_disk(f, d, h, res=res, foreign=True, fmt='ioapi' if spec['kind'].startswith(
            'ioapi') else 'netcdf')
        if g is not None:
            f = g
            res.facet('query-source:disk')
    rng = np.random.default_rng([spec['qseed'], 5])
    qs = queries_for(f, spec, rng)
    base = snapshot.file_digest_bytes(snapshot.snap_file(f))
    for name, thunk in qs:
        pre = snapshot.snap_file(f)
        err = None
        ans = None
        try:
            ans = thunk()
        except (Exception, SystemExit) as e:
            err = e     # pncdump calls exit() when it fails
        res.hook('query.return')
        if isinstance(ans, np.ndarray) and ans.size and err is None and \
                not name.startswith('save'):
            # what a query hands out is the caller's: writing into it must
            # not change what the same query answers next (no hidden state
            # shared with the answer)
            try:
                first = np.ma.array(ans, copy=True)
                scribbled = False
                try:
                    if ans.dtype == object:
                        ans += datetime.timedelta(hours=6)
                    elif ans.dtype.kind in 'fiu':
                        ans += np.asarray(7).astype(ans.dtype)
                    elif ans.dtype.kind == 'M':
                        ans += np.timedelta64(6, 'h')
                    else:
                        raise TypeError
                    scribbled = True
                except Exception:
                    pass
                if scribbled:
                    again = thunk()
                    res.hook('query.answer-alias-test')
                    same = isinstance(again, np.ndarray) and \
                        again.shape == first.shape and bool(np.all(
                            np.ma.getmaskarray(np.ma.array(again)) ==
                            np.ma.getmaskarray(first))) and bool(np.all(
                                np.ma.array(again).filled(0) ==
                                first.filled(0)))
                    if not same:
                        res.viol('query-answer-aliases-state:%s'
                                 % name.split('(')[0],
                                 'after writing into the array %s returned, '
                                 'the same query on the unchanged %s file '
                                 'answers %s instead of %s'
                                 % (name, spec['kind'],
                                    np.asarray(again).ravel()[:3].tolist()
                                    if isinstance(again, np.ndarray)
                                    else again,
                                    first.ravel()[:3].tolist()),
                                 query=name, filekind=spec['kind'])
            except Exception as e3:
                res.note('answer-alias-test-failed:%s' % type(e3).__name__)
        try:
            post = snapshot.snap_file(f)
        except Exception as e2:
            res.ev(digest([name, base]), True, 'query:' + name.split(':')[0])
            res.viol('query-invalidated-file:%s' % name.split('(')[0],
                     'after %s the %s file can no longer be read: %r'
                     % (name, spec['kind'], e2), query=name,
                     filekind=spec['kind'])
            return
        res.hook('input-unchanged.compare')
        d = snapshot.diff_file(pre, post)
        res.ev(digest([name, base]), True, 'query:' + name.split(':')[0])
        if d:
            res.viol('query-modified-file:%s' % name.split('(')[0],
                     '%s on a %s file modified it: %s%s'
                     % (name, spec['kind'], '; '.join(d[:5]),
                        ' (and raised %r)' % err if err else ''),
                     query=name, filekind=spec['kind'], diffs=d[:8])
            # continue from the modified state: later diffs are relative


# ---------------------------------------------------------------------------
def write_nc(path, k):
    import netCDF4
    ds = netCDF4.Dataset(path, 'w', format='NETCDF4_CLASSIC')
    ds.createDimension('t', None)
    ds.createDimension('x', 3 + k)
    v = ds.createVariable('v', 'f4', ('t', 'x'))
    v[0:2, :] = (np.arange(2 * (3 + k)).reshape(2, 3 + k) + 100 * (k + 1))
    ds.title = 'file%d' % k
    ds.close()
    return (np.arange(2 * (3 + k)).reshape(2, 3 + k) + 100 * (k + 1)
            ).astype('f4')


def make_sched_file(d, k, kind):
    """-> (path, pncopen keywords, variable name, expected array,
    attribute check)"""
    from .. import refbpch, refcamx
    if kind == 'netcdf':
        p = os.path.join(d, 'f%d.nc' % k)
        return p, {'format': 'netcdf'}, 'v', write_nc(p, k), \
            ('title', 'file%d' % k)
    rng = np.random.default_rng([77, k])
    if kind == 'ioapi':
        fs = gen_ioapi.gen_spec(rng, kind='grid', via='from_arrays')
        fs['masked'] = False
        f = gen_ioapi.build(fs)
        p = os.path.join(d, 'f%d.ioapi.nc' % k)
        f.save(p, format='NETCDF3_CLASSIC', verbose=0).close()
        return p, {'format': 'ioapi'}, fs['names'][0], np.asarray(
            gen_ioapi.arrays(fs)[fs['names'][0]], 'f4'), ('NVARS', None)
    if kind == 'uamiv':
        cs = refcamx.gen_spec(rng, 'uamiv')
        cs['name'] = 'AVERAGE'
        p = os.path.join(d, 'f%d.uamiv' % k)
        with open(p, 'wb') as fh:
            fh.write(refcamx.encode(cs))
        nm = cs['names'][0]
        return p, {'format': 'uamiv'}, nm, refcamx.content(cs)['vars'][nm], \
            ('NAME', None)
    bs = refbpch.gen_spec(rng, small=True)
    sub = os.path.join(d, 'b%d' % k)
    os.mkdir(sub)
    p = os.path.join(sub, 'in.bpch')
    with open(p, 'wb') as fh:
        fh.write(refbpch.encode(bs))
    with open(os.path.join(sub, 'tracerinfo.dat'), 'w') as fh:
        fh.write(refbpch.tracerinfo_text(bs))
    with open(os.path.join(sub, 'diaginfo.dat'), 'w') as fh:
        fh.write(refbpch.diaginfo_text(bs))
    tr = [t for t in bs['tracers'] if not t.get('norow')][0]
    key = refbpch.key_of(bs, tr)
    return p, {'format': 'bpch', 'noscale': True}, key, \
        refbpch.content(bs)['vars'][key], ('modelname', None)


def run_schedule(spec, res):
    import PseudoNetCDF as pnc
    nfiles = spec['nfiles']
    kinds = spec.get('kinds') or ['netcdf'] * nfiles
    old_thr = gc.get_threshold()
    was = gc.isenabled()
    gc.collect()
    with harness.casedir() as d:
        paths, expect, okw, vname, attr = [], [], [], [], []
        for k in range(nfiles):
            p, kw_, vn, ex, at = make_sched_file(d, k, kinds[k])
            paths.append(p)
            okw.append(kw_)
            vname.append(vn)
            expect.append(np.asarray(ex))
            attr.append(at)
            res.facet('sched-kind:' + kinds[k])
        refs = [None] * nfiles
        model = [0] * nfiles        # 0 none, 1 open, 2 closed
        handles = {}
        log = []
        if spec['hostile_gc']:
            gc.enable()
            gc.set_threshold(1, 1, 1)
        else:
            gc.disable()
        try:
            for step, (a, i) in enumerate(spec['seq']):
                try:
                    if a == 'open':
                        refs[i] = pnc.pncopen(paths[i], **okw[i])
                        model[i] = 1
                        handles[i] = (id(refs[i]), getattr(refs[i], '_grpid',
                                                           None))
                    elif a == 'close':
                        refs[i].close()
                        model[i] = 2
                    elif a == 'drop':
                        refs[i] = None
                        model[i] = 0
                    elif a == 'gc':
                        gc.collect()
                except Exception as e:
                    res.viol('schedule-step-raised',
                             'step %d %s(%s) raised %r after %s'
                             % (step, a, i, e, log), seq=spec['seq'])
                    return
                log.append('%s(%s)' % (a, i) if i >= 0 else a)
                # after EVERY step: every file the model says is open must
                # still be readable and unchanged
                for j in range(nfiles):
                    if model[j] != 1:
                        continue
                    res.hook('schedule.read-after-step')
                    try:
                        got = np.asarray(refs[j].variables[vname[j]][...])
                        ok = got.shape == expect[j].shape and \
                            got.astype('f4').tobytes() == \
                            expect[j].astype('f4').tobytes() and (
                                getattr(refs[j], attr[j][0]) == attr[j][1]
                                if attr[j][1] is not None else
                                hasattr(refs[j], attr[j][0]))
                        err = None if ok else 'content differs'
                    except Exception as e:
                        err = repr(e)
                    if err:
                        res.viol('open-file-invalidated',
                                 'after %s file %d (model: open) is no longer '
                                 'usable: %s; (python id, netCDF id) at open: '
                                 '%s' % (log, j, err, handles),
                                 seq=spec['seq'], step=step, victim=j)
                        return
                res.ev(None, False)
        finally:
            gc.set_threshold(*old_thr)
            gc.disable()
            for r in refs:
                try:
                    if r is not None:
                        r.close()
                except Exception:
                    pass
            refs[:] = [None] * nfiles
            gc.collect()
            if was:
                gc.enable()
    res.ev(digest(spec['seq'] + [spec['hostile_gc']]),
           sum(1 for a, _ in spec['seq'] if a == 'open') >= 1,
           ['sched:len%d' % len(spec['seq']),
            'sched:hostile' if spec['hostile_gc'] else 'sched:controlled'],
           n=0)


def run_suite(spec, res):
    """the repository's own test suite as workload: receiver and file
    arguments of every outermost public operation are digested before and
    after the call"""
    r = harness.run_suite_monitored()
    if not r or not r.get('counts'):
        res.note('inconclusive:suite-monitor-observed-nothing')
        return
    n = sum(r['counts'].values())
    res.hook('suite.op.return', n)
    res.hook('input-unchanged.compare', n)
    res.notes['suite_monitored_returns'] = n
    for op, c in r['counts'].items():
        res.facet('suite-op:' + op, c)
    res.ev(digest(['suite', sorted(r['counts'].items())]), True, 'suite')
    for v in r['violations']:
        if v['prop'] != 'C05':
            continue
        res.viol('suite-input-modified:' + v['op'],
                 'in the repository test %s: %s on a %s: %s' % (
                     v['test'], v['op'], v['receiver'],
                     '; '.join(v['problems'][:4])),
                 op=v['op'], test=v['test'])


def run(spec, res):
    ops.OPTIONS['zipped'] = True
    if spec['mode'] == 'suite':
        return run_suite(spec, res)
    if spec['mode'] == 'program':
        run_program(spec, res)
    elif spec['mode'] == 'query':
        run_query(spec, res)
    else:
        run_schedule(spec, res)


def extra_coverage(agg, tier):
    return {'schedule_histories_enumerated': len(seqs(tier)),
            'schedule_bound': 'all legal sequences of length <= %d over 2 '
                              'files' % SCHED_LEN[tier]}
