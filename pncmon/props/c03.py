"""C03 -- apply-along-dimension equals the axis-wise (masked) numpy reduction.

Monitor: call/return of applyAlongDimensions (core class and IOAPI override);
oracle: explicit masked reductions (sum/count/min/... written with np.where
on plain copies) and numpy.ma.apply_along_axis for 1-D callables."""
import numpy as np

from .. import gen_core, gen_ioapi, harness, ops, readerfiles, snapshot
from ..cli import digest

PROP = 'C03'
LEVEL = 'exploration'
RULE = ('random core and IOAPI files (float and small-integer payloads, '
        'masked/unmasked, coordinate variables, variables lacking the '
        'dimension) x named reducers {mean,sum,min,max,std,var,prod} and '
        'length-changing 1-D callables {diff, [::2], reversal, valid/same '
        'convolutions, cumsum} over 1-2 dimensions (2-dimension calls only '
        'with mutually commuting functions, called in both keyword orders); '
        'single-dimension calls also through the string forms reduce_dim '
        '(incl. median) and convolve_dim (valid/same/full); '
        'non-trivial = at least one variable has a named dimension of length '
        '>= 2; distinct = digest of (file spec, functions).')
RULE += (" Every tenth receiver is the object one of the library's READERS returns for a valid image written by the independent codecs (CAMx memory-mapped and record readers, bpch1, bpch2, arlpackedbit, ffi1001); the call is drawn from the dimensions of the open file and judged by the same oracle on a snapshot of that file.")
RULE += (' IOAPI files may carry a variable without dimensions.')
RULE += (' One receiver from disk in three (plain files) is written with netCDF4 directly, as other tools write archive files: float data variables packed (int16 with scale_factor/add_offset), masks as _FillValue; the oracle snapshots what the opened file delivers.')
RULE += (' One plain case in twelve holds a variable that uses one dimension on two axes (cov(y, y)); the function is applied along each of them (either order accepted for non-commuting reducers).')
ASSUMPTIONS = [
    'reference = explicit masked reductions with np.where/count on float64 '
    '(exact ints) copies; callables via numpy.ma.apply_along_axis',
    'values are compared with a relative tolerance of 64*eps(dtype)*n: '
    'summation order is not part of the property',
    'results that overflow the variable dtype (integer sum/prod) are not '
    'demanded; fractional results stored into integer variables are judged '
    'against the reference value',
    'mean/std/var and non-commuting function pairs only on one dimension',
]
HOOKS = ['applyAlongDimensions.return', 'reduce_dim.return',
         'convolve_dim.return', 'oracle.compare']
FACETS_REQUIRED = {t: ['form:method', 'form:reduce_dim',
                       'form:convolve_dim']
                   for t in ('quick', 'thorough')}
MIN_DISTINCT = {'quick': 600, 'thorough': 8000}
N = {'quick': 2500, 'thorough': 50000}
LINEAR = ['sum', 'diff', 'conv_valid', 'conv_same', 'cumsum', 'every2', 'rev']
PERM = ['every2', 'rev']


def ncases(tier):
    return N[tier]


def gen(rng, idx, tier, seed):
    if idx % 10 == 8:
        # the receiver is what a library reader returns for a valid image;
        # the call is drawn from its dimensions once it is open
        return {'file': {'reader': readerfiles.gen_spec(rng, idx=idx // 10)},
                'apply_seed': int(rng.integers(1 << 30)), 'idx': idx}
    ioapi = idx % 5 == 4
    if ioapi:
        fs = {'ioapi': gen_ioapi.gen_spec(rng)}
        dims = [['TSTEP', fs['ioapi']['nt']], ['LAY', fs['ioapi']['nz']]]
        if fs['ioapi']['kind'] == 'grid':
            dims += [['ROW', fs['ioapi']['ny']], ['COL', fs['ioapi']['nx']]]
    else:
        core = gen_core.gen_filespec(rng, dtypes=['f4', 'f8', 'f8', 'i2',
                                                  'i4', 'i8'],
                                     allow_char=False, mask_prob=0.55)
        for vs in core['vars']:
            if np.dtype(vs['dtype']).kind in 'iu':
                vs['imax'] = 12
        fs = {'core': core}
        dims = [[d[0], d[1]] for d in core['dims']]
    spec = gen_apply(rng, dims, idx, ioapi)
    spec['file'] = fs
    big = [d for d in dims if d[1] >= 3]
    if idx % 12 == 6 and not ioapi and big and not spec.get('form'):
        # a variable that uses one dimension on two axes (a covariance
        # matrix per step): the function goes along each of them
        y = big[0][0]
        other = [d[0] for d in dims if d[0] != y]
        core['vars'].append({
            'name': 'cov', 'dims': ([other[0]] if other and rng.random() < .5
                                    else []) + [y, y],
            'dtype': str(rng.choice(['f8', 'f4'])), 'kind': 'data',
            'mask': str(rng.choice(['none', 'random'])), 'fill': -999.0,
            'seed': int(rng.integers(1 << 30)), 'attrs': []})
        spec['apply'] = [[y, str(rng.choice(['sum', 'max', 'min', 'mean',
                                             'rev', 'cumsum',
                                             'conv_same']))]]
    return spec


def gen_apply(rng, dims, idx, ioapi, forms=True):
    nd = 1 if rng.random() < 0.6 else 2
    chosen = [dims[i] for i in rng.permutation(len(dims))[:nd]]

    def ok(fn, ln):
        return fn not in ops.CALLABLES or ln >= ops.CALLABLES[fn][1]
    if len(chosen) == 1:
        ln = chosen[0][1]
        pool = [f for f in ops.REDUCERS + list(ops.CALLABLES) if ok(f, ln)]
        fns = [str(rng.choice(pool))]
    else:
        r = rng.random()
        if r < 0.3:
            # order-dependent pairs (masked mean of means, std of std ...):
            # the result must be one of the two sequential applications
            f0 = str(rng.choice(['mean', 'mean', 'mean', 'std', 'var']))
            fns = [f0, str(rng.choice([f0, f0, f0, 'mean', 'max']))]
        elif r < 0.45:
            f0 = str(rng.choice(['sum', 'min', 'max', 'prod']))
            fns = [f0, f0]
        elif r < 0.8:
            fns = [str(rng.choice([f for f in LINEAR if ok(f, c[1])]))
                   for c in chosen]
        else:
            fns = [str(rng.choice(['min', 'max', 'prod'])),
                   str(rng.choice(PERM))]
            if not ok(fns[1], chosen[1][1]):
                fns[1] = fns[0]
    spec = {'apply': [[c[0], f] for c, f in zip(chosen, fns)],
            # the receiver is a file on disk (saved, opened again)
            'disk': bool(idx % 5 == 2)}
    if forms and not ioapi and len(chosen) == 1 and idx % 3 == 1:
        # the command-line string forms of core/_functions.py
        if idx % 2 == 1 and chosen[0][1] >= 1:
            nw = int(rng.integers(1, 4))
            w = [float(x) for x in rng.choice(
                [1.0, 2.0, -1.0, 0.5, 0.25, 3.0], nw)]
            mode = str(rng.choice(['valid', 'same', 'full']))
            if mode == 'valid' and chosen[0][1] < nw:
                mode = 'full'
            spec['apply'] = [[chosen[0][0], 'cdim']]
            spec['form'] = 'convolve_dim'
            spec['conv'] = {'mode': mode, 'weights': w}
        elif fns[0] in ops.REDUCERS:
            spec['form'] = 'reduce_dim'
            if rng.random() < 0.35:
                # a reducer that is a numpy / numpy.ma function but not an
                # array method
                spec['apply'] = [[chosen[0][0], 'median']]
    return spec


def build(fs):
    if 'ioapi' in fs:
        return gen_ioapi.build(fs['ioapi'])
    return gen_core.build(fs['core'])


def ref_reduce(data, mask, ax, name):
    """explicit masked reduction along ax with the axis retained.
    returns (values float64/int64, mask)"""
    m = np.zeros(data.shape, bool) if mask is None else mask
    cnt = (~m).sum(axis=ax, keepdims=True)
    isint = data.dtype.kind in 'iu'
    w = data.astype('i8') if isint else data.astype('f8')
    if name == 'sum':
        v = np.where(m, 0, w).sum(axis=ax, keepdims=True)
    elif name == 'prod':
        v = np.where(m, 1, w).prod(axis=ax, keepdims=True)
    elif name == 'min':
        big = np.iinfo('i8').max if isint else np.inf
        v = np.where(m, big, w).min(axis=ax, keepdims=True)
    elif name == 'max':
        small = np.iinfo('i8').min if isint else -np.inf
        v = np.where(m, small, w).max(axis=ax, keepdims=True)
    elif name == 'median':
        with np.errstate(all='ignore'):
            import warnings
            with warnings.catch_warnings():
                warnings.simplefilter('ignore')
                v = np.nanmedian(np.where(m, np.nan, data.astype('f8')),
                                 axis=ax, keepdims=True)
    else:
        wf = data.astype('f8')
        s = np.where(m, 0, wf).sum(axis=ax, keepdims=True)
        with np.errstate(all='ignore'):
            mean = s / cnt
            if name == 'mean':
                v = mean
            else:
                d2 = np.where(m, 0, (wf - mean) ** 2).sum(axis=ax,
                                                          keepdims=True)
                v = d2 / cnt
                if name == 'std':
                    v = np.sqrt(v)
    return v, cnt == 0


_EXTRA = {}


def callable_of(fn):
    return _EXTRA[fn] if fn in _EXTRA else ops.CALLABLES[fn][0]


def ref_callable(data, mask, ax, fn):
    a = np.ma.array(data.astype('f8') if data.dtype.kind == 'f' else
                    data.astype('i8'), mask=mask)
    if data.shape[ax] == 0 or a.size == 0:
        raise ValueError('empty')
    out = np.ma.apply_along_axis(callable_of(fn), ax, a)
    return np.ma.getdata(out), np.ma.getmaskarray(out)


def run(spec, res):
    with harness.casedir() as d, harness.handles() as h:
        run_in(spec, res, d, h)


def run_in(spec, res, d, h):
    rdr = spec['file'].get('reader')
    if rdr:
        f, status = readerfiles.open_reader(rdr, d)
        res.facet('reader:%s:%s' % (rdr['kind'], status.split(':')[0]))
        if f is None or snapshot.wellformed(f):
            # (a malformed reader file is C01's finding)
            res.note('reader-gave-no-file:' + status)
            return
        used = ops.dims_used(f)
        numeric = all(np.dtype(f.variables[k].dtype).kind in 'fiu'
                      for k in f.variables.keys())
        dims = [[k, len(dm)] for k, dm in f.dimensions.items()
                if k in used and len(dm) > 0 and
                k not in ('VAR', 'DATE-TIME', 'nv', 'tnv')]
        if not dims or not numeric:
            res.note('reader-file-not-reducible')
            return
        res.facet('source:reader')
        spec = dict(spec, **gen_apply(
            np.random.default_rng([spec['apply_seed'], 78]), dims,
            spec['idx'], ops.is_ioapi(f), forms=False))
        spec['disk'] = False
        return run_file(spec, res, d, h, f, ops.is_ioapi(f))
    f = build(spec['file'])
    return run_file(spec, res, d, h, f, 'ioapi' in spec['file'])


def run_file(spec, res, d, h, f, ioapi):
    if spec.get('form') == 'reduce_dim':
        # a dimension whose name EXTENDS the reduced one (levp1 next to lev):
        # it is another dimension and its variables are not to be touched
        # (only names followed by digits alone are documented to go along)
        d0 = spec['apply'][0][0]
        if d0 + 'p1' not in f.dimensions:
            f.createDimension(d0 + 'p1', 3)
            dv = f.createVariable('decoy', 'f', (d0 + 'p1',))
            dv[:] = [1.5, 2.5, 4.0]
    if spec.get('disk'):
        g = harness.to_disk(f, d, h, res=res, foreign=True, fmt='ioapi' if 'ioapi' in spec['file']
                            else 'netcdf')
        if g is not None:
            f = g
            res.facet('source:disk')
    before = snapshot.snap_file(f)
    if any(np.dtype(vs.dtype).kind not in 'fiub' and
           any(d_ in vs.dims for d_, _ in spec['apply'])
           for vs in before.vars.values()):
        # a text variable lies along a named dimension: numeric functions
        # are not defined for it (outside the domain of the call)
        res.note('out-of-domain:text-variable-along-dimension')
        return
    fnmap = {d: fn for d, fn in spec['apply']}
    facets = ['fn:' + fn for fn in fnmap.values()] + [
        'ndims:%d' % len(fnmap), 'ioapi' if ioapi else 'core']

    form = spec.get('form', 'method')
    facets.append('form:' + form)
    _EXTRA.clear()
    if form == 'convolve_dim':
        cw = np.array(spec['conv']['weights'], dtype='f')
        cmode = spec['conv']['mode']
        _EXTRA['cdim'] = lambda x_: np.convolve(cw, x_, mode=cmode)

    def call(order):
        if form == 'reduce_dim':
            from PseudoNetCDF.core._functions import reduce_dim
            res.hook('reduce_dim.return')
            return reduce_dim(f, '%s,%s' % tuple(order[0]))
        if form == 'convolve_dim':
            from PseudoNetCDF.core._functions import convolve_dim
            res.hook('convolve_dim.return')
            return convolve_dim(f, ','.join(
                [order[0][0], cmode] + [repr(w) for w in
                                        spec['conv']['weights']]))
        kw = {}
        for d, fn in order:
            kw[d] = ops.CALLABLES[fn][0] if fn in ops.CALLABLES else fn
        return f.applyAlongDimensions(**kw)
    zero = any(ln == 0 for ln, _ in before.dims.values())
    try:
        out = call(spec['apply'])
        out2 = call(spec['apply'][::-1]) if len(spec['apply']) > 1 else None
    except Exception as e:
        res.hook('applyAlongDimensions.return')
        res.ev(digest(spec), True, facets + ['raised'])
        if not zero:
            res.viol('in-domain-raise:%s' % type(e).__name__ + (
                         '' if form == 'method' else ':' + form),
                     '%s(%s) raised %r' % (
                         'applyAlongDimensions' if form == 'method' else form,
                         spec['apply'], e),
                     apply=spec['apply'], excmsg=str(e)[:300], form=form)
        return
    res.hook('applyAlongDimensions.return')
    problems = []
    truncs = []
    nontrivial = False
    expect_len = {}
    for name, vs in before.vars.items():
        if ioapi and name in ('TFLAG', 'ETFLAG'):
            continue   # rebuilt from metadata by the IOAPI override (C10/C12)
        mine = [(ax_, d) for ax_, d in enumerate(vs.dims) if d in fnmap]
        if name not in out.variables:
            problems.append('variable %s missing' % name)
            continue
        got = snapshot.snap_var(out.variables[name])
        res.hook('oracle.compare')
        if not mine:
            problems += snapshot.check_var(got, name, dims=vs.dims,
                                           data=vs.data, mask=vs.mask,
                                           dtype=vs.dtype)
            continue
        def seq(order):
            data, mask = vs.data, vs.mask
            for ax, d in order:
                fn = fnmap[d]
                if fn in ops.CALLABLES or fn in _EXTRA:
                    data, mask = ref_callable(data, mask, ax, fn)
                else:
                    data, mask = ref_reduce(data, mask, ax, fn)
                if mask is not None and not np.any(mask):
                    mask = None
                expect_len[d] = data.shape[ax]
            return data, mask
        try:
            data, mask = seq(sorted(mine, reverse=True))
            alt = None
            if len(mine) > 1 and any(fnmap[d] in ('mean', 'std', 'var')
                                     for ax, d in mine):
                # the property fixes no order for non-commuting functions:
                # either sequential order is accepted (a joint reduction
                # over both axes at once is not "along each axis")
                alt = seq(sorted(mine))
        except Exception:
            res.note('reference-raised')
            continue
        if any(vs.shape[ax] >= 2 for ax, d in mine):
            nontrivial = True
        vdt = np.dtype(vs.dtype)
        if vdt.kind in 'iu' and vs.mask is not None and vs.mask.any() and \
                any(fnmap[d] in ops.CALLABLES or fnmap[d] in _EXTRA
                    for ax, d in mine):
            # numpy's 1-D functions (convolve, diff, cumsum ...) compute with
            # whatever number sits under a masked cell - for a file on disk
            # the missing code, e.g. -2147483647 - and the integer type then
            # wraps or truncates it: such cells have no defined contribution
            res.note('skipped:callable-over-masked-integer')
            continue
        n = max(1, int(np.prod([vs.shape[ax] for ax, d in mine])))
        if vdt.kind in 'iu':
            info = np.iinfo(vdt)
            with np.errstate(all='ignore'):
                over = (np.asarray(data, 'f8') > info.max) | (
                    np.asarray(data, 'f8') < info.min)
            if np.any(over & ~(mask if mask is not None else False)):
                res.note('skipped:integer-overflow')
                continue
            frac = np.asarray(data, 'f8') != np.round(np.asarray(data, 'f8'))
            keep = ~(mask if mask is not None else np.zeros(data.shape, bool))
            if np.any(frac & keep):
                # fractional result in an integer variable
                gd = got.data.astype('f8')
                if got.shape == data.shape and got.data.dtype.kind == 'f':
                    # the result kept the fractional values (reduce_dim
                    # stores the float array): judged like a float variable
                    ok = snapshot.check_var(
                        got, name, dims=vs.dims, data=np.asarray(data, 'f8'),
                        mask=mask, rtol=64 * np.finfo('f8').eps * n,
                        atol=1e-9)
                    if not ok:
                        continue
                if got.shape == data.shape:
                    tr = np.trunc(np.asarray(data, 'f8'))
                    gm = got.mask if got.mask is not None else np.zeros(
                        got.shape, bool)
                    if np.array_equal(gd[keep & ~gm], tr[keep & ~gm]) and \
                            np.array_equal(gm, ~keep):
                        truncs.append(name)
                        continue
                # several functions in one call: the stored type truncates
                # after EACH of them (same known mechanism), in either order
                stepwise = False
                # (numpy's apply_along_axis types its output by the first
                # 1-D result, so this happens where a step is a CALLABLE;
                # named reducers keep their floating result until the store)
                if len(mine) > 1 and got.shape == data.shape and any(
                        fnmap[d_] in ops.CALLABLES or fnmap[d_] in _EXTRA
                        for ax_, d_ in mine):
                    for order in (sorted(mine, reverse=True), sorted(mine)):
                        try:
                            dd_, mm_ = vs.data, vs.mask
                            for ax_, d_ in order:
                                fn_ = fnmap[d_]
                                if fn_ in ops.CALLABLES or fn_ in _EXTRA:
                                    dd_, mm_ = ref_callable(dd_, mm_, ax_,
                                                            fn_)
                                else:
                                    dd_, mm_ = ref_reduce(dd_, mm_, ax_, fn_)
                                dd_ = np.trunc(np.asarray(dd_, 'f8')).astype(
                                    vdt)
                                if mm_ is not None and not np.any(mm_):
                                    mm_ = None
                            k_ = ~(mm_ if mm_ is not None else np.zeros(
                                dd_.shape, bool))
                            gm_ = got.mask if got.mask is not None else \
                                np.zeros(got.shape, bool)
                            if np.array_equal(gm_, ~k_) and np.array_equal(
                                    got.data[k_], dd_[k_]):
                                stepwise = True
                                break
                        except Exception:
                            pass
                if stepwise:
                    truncs.append(name)
                    continue
                problems.append('%s: fractional reference stored in %s '
                                'variable and not even its truncation'
                                % (name, vdt))
                continue
            rtol, atol = None, 0.0
            data = np.asarray(data).astype(vdt)
        else:
            with np.errstate(all='ignore'):
                big = np.abs(np.asarray(data, 'f8')) > np.finfo(vdt).max
            if np.any(big & ~(mask if mask is not None else False)):
                res.note('skipped:float-overflow')
                continue
            rtol = 64 * np.finfo(vdt).eps * n
            scale = float(np.max(np.abs(vs.data))) if vs.data.size else 1.0
            atol = rtol * scale * (scale if any(
                fnmap[d] == 'var' for ax, d in mine) else 1.0)
            if any(fnmap[d] == 'prod' for ax, d in mine):
                atol = 0.0
                a_ = np.abs(np.asarray(vs.data, 'f8'))
                a_ = a_[a_ > 0]
                # (also long axes of moderate values: numpy multiplies
                # in several lanes, so the lanes that do not hold the zero
                # overflow and 0 * inf is nan - 0 x 1 x ... x 1006 in
                # float32)
                lg_ = np.log(a_) if a_.size else np.zeros(0)
                if a_.size and (a_.min() < np.sqrt(float(np.finfo(vdt).tiny))
                                or a_.max() > np.sqrt(float(
                                    np.finfo(vdt).max))
                                or lg_[lg_ > 0].sum() > np.log(float(
                                    np.finfo(vdt).max))
                                or -lg_[lg_ < 0].sum() > -np.log(float(
                                    np.finfo(vdt).tiny))):
                    # running products of such values pass through the
                    # denormal range / overflow in the variable's own
                    # precision: no single right answer
                    res.note('skipped:prod-on-extreme-values')
                    continue
            # below the smallest normal number of the variable's type the
            # spacing is absolute (denormals, underflow to zero)
            atol = max(atol, float(np.finfo(vdt).tiny))
        p1 = snapshot.check_var(got, name, dims=vs.dims, data=data,
                                mask=mask, rtol=rtol, atol=atol)
        if p1 and vdt.kind == 'f' and vs.data.size:
            # numpy reduces in the variable's own precision: values near the
            # largest float32 (the CAMx images carry +-max payloads) overflow
            # in the running sum although the exact result is representable.
            # "The same function along the same axis" overflows as well.
            with np.errstate(all='ignore'):
                top = float(np.max(np.abs(np.asarray(vs.data, 'f8'))))
                if any(fnmap[d] in ('var', 'std') for ax, d in mine):
                    top = top * top
                gm_ = got.mask if got.mask is not None else np.zeros(
                    got.shape, bool)
                if top * n * 4 > np.finfo(vdt).max and not np.all(
                        np.isfinite(got.data[~gm_])):
                    res.note('skipped:intermediate-overflow')
                    continue
        if p1 and alt is not None and vdt.kind == 'f':
            p2 = snapshot.check_var(got, name, dims=vs.dims, data=alt[0],
                                    mask=alt[1], rtol=rtol, atol=atol)
            if not p2:
                p1 = []
            else:
                p1 = [p1[0] + ' (neither sequential order of the two '
                      'functions gives the result)']
        problems += p1
    for d, (ln0, _) in before.dims.items():
        if d not in fnmap and d in out.dimensions and \
                len(out.dimensions[d]) != ln0:
            problems.append('dimension %s (not named in the call) changed '
                            'length %d -> %d' % (d, ln0,
                                                 len(out.dimensions[d])))
    for d, ln in expect_len.items():
        if d not in out.dimensions or len(out.dimensions[d]) != ln:
            problems.append('dimension %s length %s, expected %d' % (
                d, len(out.dimensions[d]) if d in out.dimensions else None,
                ln))
    noncomm = len(fnmap) > 1 and any(fn in ('mean', 'std', 'var')
                                      for fn in fnmap.values())
    if out2 is not None and not noncomm:
        a = snapshot.snap_file(out)
        b = snapshot.snap_file(out2)
        for name in a.vars:
            if ioapi and name in ('TFLAG', 'ETFLAG'):
                continue
            va, vb = a.vars[name], b.vars.get(name)
            if vb is None or va.shape != vb.shape:
                problems.append('%s: keyword order changes the shape' % name)
                continue
            dt = np.dtype(va.dtype)
            if dt.kind not in 'fiu':
                # (text, booleans: untouched by the call, compared exactly)
                d = snapshot.check_var(vb, name, data=va.data, mask=va.mask)
                if d:
                    problems.append('keyword order matters: ' + d[0])
                continue
            rt = None if dt.kind in 'iu' else 256 * np.finfo(dt).eps
            d = snapshot.check_var(vb, name, data=va.data, mask=va.mask,
                                   rtol=rt, atol=0.0 if rt is None else
                                   rt * float(np.max(np.abs(va.data)))
                                   if va.data.size else 0.0)
            if d:
                problems.append('keyword order matters: ' + d[0])
    res.ev(digest(spec), nontrivial, facets)
    if truncs:
        res.viol('integer-truncation', 'variables %s: fractional %s stored '
                 'truncated into the integer variable' % (
                     truncs, [fn for fn in fnmap.values()]),
                 apply=spec['apply'], vars=truncs, form=form)
    if problems:
        res.viol('wrong-values' if form == 'method' else
                 'wrong-values:' + form, '; '.join(problems[:6]),
                 apply=spec['apply'], form=form, conv=spec.get('conv'),
                 masked=[n for n, v in before.vars.items()
                         if v.mask is not None and v.mask.any()])
