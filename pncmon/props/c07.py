"""C07 -- saving to netCDF and reopening reproduces the file.

Monitor: save()/pncwrite/pncgen with a NETCDF* format followed by pncopen
(explicit format and auto-detected); oracle: field-by-field comparison of the
reopened file with the pre-save snapshot."""
import os

import numpy as np

from .. import gen_core, gen_ioapi, harness, readerfiles, snapshot
from ..cli import digest

PROP = 'C07'
LEVEL = 'exploration'
RULE = ('random core files (all numeric dtypes + char, scalar variables, '
        'masked variables with assorted fill values, str/int/float/numpy '
        'scalar/array attributes, unlimited dimension first/not first) and '
        'IOAPI files x {NETCDF3_CLASSIC, NETCDF3_64BIT_OFFSET, '
        'NETCDF4_CLASSIC, NETCDF4} x complevel {0,4} x {save, pncwrite, '
        'pncgen} x reopen {format=netcdf, auto-detected}. in-domain = '
        'representable in the flavour (see assumptions); non-trivial = '
        'in-domain file with >= 1 variable; distinct = digest of the spec.')
RULE += (" Variables are also created with sized type strings ('f8', 'i2', ...) and through values= with a missing_value attribute; a second save generation in another flavour; files with a second unlimited dimension (NETCDF4).")
RULE += (" Every ninth source is the object one of the library's READERS returns for a valid image written by the independent codecs (CAMx memory-mapped and record readers, bpch1, bpch2, arlpackedbit, ffi1001) - conversion to netCDF is what the readers are mostly used for; byte order and bytes-vs-str of character attributes are encodings of the container, attribute names the HDF5 layer reserves (NAME, CLASS, ...) are not representable in the netCDF-4 flavours.")
RULE += (' Every eleventh source is a netCDF file as other tools write it, made here with netCDF4 directly: packed variables (int16 with scale_factor/add_offset, with and without _FillValue, with and without missing cells) next to a plain coordinate.')
RULE += (' Those files also carry a variable with missing cells but no missing code of its own (netCDF default fill value), a variable with values outside its valid_range, and - for the NETCDF4 flavour - a netCDF string variable.')
RULE += (' Packed variables of the netCDF4-written sources carry both packing attributes, add_offset only, or scale_factor only.')
RULE += (' One case in fifty saves variables of more than a megabyte (a float32 matrix of 520-700 x 500 and a masked float64 record variable).')
RULE += (' One plain case in six carries attribute values held as 0-d arrays of float32 / int32 / int16.')
RULE += (' Numeric attribute values held as numpy float32 / int16 / int32 must read back in that type.')
ASSUMPTIONS = [
    'classic-model flavours cannot hold int64/unsigned: such files are '
    'outside the domain there (must raise or round-trip)',
    'NETCDF3 flavours: the unlimited dimension must lead every variable that '
    'uses it; an unlimited dimension used by no variable cannot store its '
    'length in any flavour: outside the domain',
    'a masked variable whose unmasked data contain its own fill value is not '
    'representable: outside the domain',
    '_FillValue on the reopened variable is the on-disk encoding of "masked" '
    'and is compared as fill value, not as a user attribute; python int/float '
    'attributes are compared by value (dtype widening is the flavour\'s)',
]
HOOKS = ['save.return', 'reopen.return', 'oracle.compare']
MIN_DISTINCT = {'quick': 150, 'thorough': 3000}
N = {'quick': 400, 'thorough': 8000}
FORMATS = ['NETCDF3_CLASSIC', 'NETCDF3_64BIT_OFFSET', 'NETCDF4_CLASSIC',
           'NETCDF4']
JOBS = {'quick': 8}


def ncases(tier):
    return N[tier]


def gen(rng, idx, tier, seed):
    fmt = FORMATS[idx % 4]
    if idx % 11 == 10:
        # a netCDF file as other tools write it (archive conventions): packed
        # variables (short integers with scale_factor / add_offset, with and
        # without missing cells), written here with netCDF4 directly
        n = int(rng.integers(2, 7))
        m = int(rng.integers(1, 4))
        vs = []
        for i in range(int(rng.integers(1, 4))):
            vs.append({'name': 'p%d' % i,
                       'dims': ['x'] if rng.random() < 0.5 else ['t', 'x'],
                       'scale': float(rng.choice([0.1, 0.5, 0.01, 2.0])),
                       'offset': float(rng.choice([0.0, 5.0, 273.15, -10.0])),
                       'fill': bool(rng.random() < 0.7),
                       'mask': str(rng.choice(['none', 'some', 'some'])),
                       'seed': int(rng.integers(1 << 30))})
        return {'file': {'nc4src': {'n': n, 'm': m, 'vars': vs,
                                    'unlimited': bool(rng.random() < 0.5)}},
                'format': fmt, 'complevel': 0,
                'via': str(rng.choice(['save', 'pncwrite', 'pncgen'])),
                'auto': bool(rng.random() < 0.5), 'format2': None}
    if idx % 50 == 23:
        # variables of more than a megabyte (whatever the writer does in
        # pieces), with lengths that are no multiple of anything
        nr = int(rng.integers(520, 700))
        core = {'dims': [['t', int(rng.integers(3, 9)), True],
                         ['r', nr, False], ['c', 500, False],
                         ['y', int(rng.integers(90, 131)), False]],
                'vars': [
                    {'name': 'BIG', 'dims': ['r', 'c'], 'dtype': 'f4',
                     'kind': 'data', 'mask': 'none', 'fill': None,
                     'seed': int(rng.integers(1 << 30)), 'attrs': []},
                    {'name': 'REC', 'dims': ['t', 'y', 'c'], 'dtype': 'f8',
                     'kind': 'data', 'mask': 'random', 'fill': -999.0,
                     'seed': int(rng.integers(1 << 30)), 'attrs': []}],
                'attrs': [['title', 'large']], 'coords': []}
        return {'file': {'core': core}, 'format': fmt,
                'complevel': int(rng.choice([0, 0, 4])),
                'via': str(rng.choice(['save', 'pncwrite', 'pncgen'])),
                'auto': bool(rng.random() < 0.5), 'format2': None}
    if idx % 9 == 8:
        fs = {'reader': readerfiles.gen_spec(rng, idx=idx // 9)}
    elif idx % 7 == 6:
        fs = {'ioapi': gen_ioapi.gen_spec(rng, via='from_arrays')}
    else:
        dts = ['f4', 'f8', 'i2', 'i4']
        if fmt == 'NETCDF4' or rng.random() < 0.1:
            dts = dts + ['i8', 'u1']
        fs = {'core': gen_core.gen_filespec(
            rng, dtypes=dts, allow_char=True, allow_unlimited=True,
            # the netCDF-4 model allows several unlimited dimensions
            second_unlimited=(fmt == 'NETCDF4' and idx % 8 == 3))}
    if 'core' in fs and idx % 6 == 1:
        # attribute values held as 0-d arrays of the narrower types (header
        # numbers as a reader stores them)
        fs['core']['attrs'] += [['XCELL0', {'np0': 'f4', 'v': 0.1}],
                                ['NTHIK0', {'np0': 'i4', 'v': 3}]]
        if fs['core']['vars']:
            fs['core']['vars'][0]['attrs'] = list(
                fs['core']['vars'][0]['attrs']) + [
                    ['flag0', {'np0': 'i2', 'v': 7}]]
    if 'core' in fs:
        fs['core']['sized_typecodes'] = bool(idx % 5 == 2)
        fs['core']['values_kw'] = bool(idx % 5 == 4)
    return {'file': fs, 'format': fmt,
            'complevel': int(rng.choice([0, 0, 4])),
            'via': str(rng.choice(['save', 'save', 'pncwrite', 'pncgen'])),
            'auto': bool(rng.random() < 0.5),
            # the reopened (disk-backed) file saved once more
            'format2': FORMATS[int(rng.integers(4))] if rng.random() < 0.4
            else None}


def in_domain(spec, snap):
    fmt = spec['format']
    why = []
    unl = [k for k, (n, u) in snap.dims.items() if u]
    for k, v in snap.vars.items():
        dt = np.dtype(v.dtype)
        if fmt != 'NETCDF4' and (dt.kind == 'u' or dt == np.dtype('i8')):
            why.append('dtype %s in %s' % (dt, fmt))
        if fmt.startswith('NETCDF3'):
            for u in unl:
                if u in v.dims and v.dims[0] != u:
                    why.append('unlimited %s not leading in %s' % (u, k))
        if v.mask is not None:
            keep = ~v.mask
            # the missing code the writer uses: missing_value attribute
            # first, then the array's fill value
            for code in (v.attrs.get('missing_value'), v.fill):
                if code is None:
                    continue
                try:
                    if (v.data[keep] == np.asarray(code).astype(dt)).any():
                        why.append('unmasked data equal the missing code '
                                   'in ' + k)
                except Exception:
                    pass
    for k, a in snap.attrs.items():
        if isinstance(a, np.ndarray) and a.dtype == object or not isinstance(
                a, (str, bytes, int, float, np.generic, np.ndarray, list,
                    tuple)):
            # (the record readers list their open file handle as attribute)
            why.append('global attribute %s holds a python object' % k)
    for u in unl:
        if not any(u in v.dims for v in snap.vars.values()):
            why.append('unlimited dimension %s used by no variable' % u)
    if len(unl) > 1 and fmt != 'NETCDF4':
        why.append('several unlimited dimensions')
    return why


def write_nc4src(ns, path, strings=False):
    import netCDF4
    ds = netCDF4.Dataset(path, 'w', format='NETCDF4' if strings
                         else 'NETCDF4_CLASSIC')
    ds.createDimension('t', None if ns['unlimited'] else ns['m'])
    ds.createDimension('x', ns['n'])
    ds.title = 'archive-style file'
    xv = ds.createVariable('x', 'f8', ('x',))
    xv[:] = np.arange(ns['n']) * 1.5
    for v in ns['vars']:
        rng = np.random.default_rng([v['seed'], 3])
        shape = tuple({'t': ns['m'], 'x': ns['n']}[d] for d in v['dims'])
        kw = {'fill_value': -32767} if v['fill'] else {}
        nv = ds.createVariable(v['name'], 'i2', tuple(v['dims']), **kw)
        # packed with both attributes, with the offset only, or with the
        # scale only
        style = v['seed'] % 5
        sc = 1.0 if style == 0 else np.float64(np.float32(v['scale']))
        of = 0.0 if style == 1 else np.float64(np.float32(v['offset']))
        if style != 0:
            nv.scale_factor = np.float32(v['scale'])
        if style != 1:
            nv.add_offset = np.float32(v['offset'])
        nv.units = 'K'
        packed = rng.integers(-2000, 2000, shape)
        vals = packed * sc + of
        if v['mask'] == 'some':
            mk = rng.random(shape) < 0.3
            if not mk.any():
                mk.reshape(-1)[0] = True
            vals = np.ma.array(vals, mask=mk)
        nv[...] = vals
    # missing cells without a missing code (netCDF default fill value), and
    # cells outside the declared valid_range
    rng = np.random.default_rng([ns['vars'][0]['seed'], 5])
    dv = ds.createVariable('dflt', 'i4' if rng.random() < 0.5 else 'f4',
                           ('x',))
    mk = rng.random(ns['n']) < 0.4
    mk[0] = True
    dv[:] = np.ma.array(rng.integers(0, 50, ns['n']), mask=mk)
    rv = ds.createVariable('ranged', 'f4', ('x',))
    rv.valid_range = np.array([0., 10.], 'f4')
    rv[:] = rng.uniform(-5, 15, ns['n']).astype('f4')
    if strings:
        # a netCDF string variable (representable in the NETCDF4 flavour)
        sv = ds.createVariable('names', str, ('x',))
        sv.long_name = 'station names'
        sv[:] = np.array(['station %d' % i * (1 + i % 2)
                          for i in range(ns['n'])], dtype=object)
    ds.close()


def run(spec, res):
    ns = spec['file'].get('nc4src')
    if ns:
        import PseudoNetCDF as pnc
        with harness.casedir() as d0, harness.handles() as h0:
            p0 = os.path.join(d0, 'archive.nc')
            strings = spec['format'] == 'NETCDF4' and \
                ns['vars'][0]['seed'] % 2 == 0
            write_nc4src(ns, p0, strings=strings)
            if strings:
                res.facet('source:netcdf-string-variable')
            f = h0.keep(pnc.pncopen(p0, format='netcdf'))
            res.facet('source:netcdf4-written-packed')
            return run_file(spec, res, f)
    rdr = spec['file'].get('reader')
    if rdr:
        # the file saved is what a library reader returns for a valid image
        # (conversion to netCDF is what the readers are mostly used for)
        with harness.casedir() as d0:
            f, status = readerfiles.open_reader(rdr, d0)
            res.facet('reader:%s:%s' % (rdr['kind'], status.split(':')[0]))
            if f is None:
                res.note('reader-gave-no-file:' + status)
                return
            res.facet('source:reader')
            return run_file(spec, res, f)
    if 'ioapi' in spec['file']:
        f = gen_ioapi.build(spec['file']['ioapi'])
    else:
        f = gen_core.build(spec['file']['core'])
    return run_file(spec, res, f)


RESERVED_HDF5 = ('NAME', 'CLASS', 'REFERENCE_LIST', 'DIMENSION_LIST')


def strip_reserved(snap, fmt, res):
    if fmt.startswith('NETCDF4'):
        # the HDF5 layer keeps these attribute names for itself: they are
        # not representable in the netCDF-4 flavours (the library warns and
        # carries on); everything else must still come back
        for k in RESERVED_HDF5:
            if k in snap.attrs:
                del snap.attrs[k]
                res.note('hdf5-reserved-attribute-name:' + k)


def run_file(spec, res, f):
    import PseudoNetCDF as pnc
    from PseudoNetCDF.pncgen import pncgen
    before = snapshot.snap_file(f)
    why = in_domain(spec, before)
    if spec['file'].get('reader') and snapshot.wellformed(f):
        # what the reader returned is not a file (C01's finding)
        why.append('source is malformed')
    strip_reserved(before, spec['format'], res)
    facets = ['fmt:' + spec['format'], 'via:' + spec['via'],
              'auto' if spec['auto'] else 'explicit',
              'complevel:%d' % spec['complevel']]
    with harness.casedir() as d, harness.handles() as h:
        path = os.path.join(d, 'out.nc')
        try:
            kw = dict(format=spec['format'], verbose=0)
            if spec['complevel']:
                kw['complevel'] = spec['complevel']
            if spec['via'] == 'save':
                o = f.save(path, **kw)
            elif spec['via'] == 'pncwrite':
                o = pnc.pncwrite(f, path, **kw)
            else:
                o = pncgen(f, path, **kw)
            h.keep(o)
            o.close()
        except Exception as e:
            res.hook('save.return')
            res.ev(digest(spec), not why, facets + ['save-raised'])
            if not why:
                res.viol('in-domain-raise:save:%s' % type(e).__name__,
                         'save(format=%s) raised %r' % (spec['format'], e),
                         excmsg=str(e)[:300], fmt=spec['format'])
            return
        res.hook('save.return')
        try:
            if spec['auto']:
                g = h.keep(pnc.pncopen(path))
            else:
                g = h.keep(pnc.pncopen(path, format='netcdf'))
        except Exception as e:
            res.hook('reopen.return')
            res.ev(digest(spec), not why, facets + ['reopen-raised'])
            if not why:
                res.viol('reopen-raised:%s' % type(e).__name__,
                         'reopening the saved file raised %r' % (e,))
            return
        res.hook('reopen.return')
        if why:
            res.ev(digest(spec), False, facets + ['out-of-domain'])
            res.note('out-of-domain')
            return
        after = snapshot.snap_file(g)
        problems = compare(before, after, res)
        res.ev(digest(spec), len(before.vars) > 0, facets)
        if problems:
            res.viol('roundtrip-differs', '%s via %s: %s' % (
                spec['format'], spec['via'], '; '.join(problems[:6])),
                fmt=spec['format'], problems=problems[:10])
            return
        if not spec.get('format2'):
            return
        spec2 = dict(spec, format=spec['format2'])
        if in_domain(spec2, after):
            res.note('second-generation-out-of-domain')
            return
        path2 = os.path.join(d, 'out2.nc')
        try:
            o2 = g.save(path2, format=spec['format2'], verbose=0)
            h.keep(o2)
            o2.close()
            res.hook('save.return')
            g2 = h.keep(pnc.pncopen(path2, format='netcdf'))
            res.hook('reopen.return')
            after2 = snapshot.snap_file(g2)
        except Exception as e:
            res.hook('save.return')
            res.ev(digest([spec, 'gen2']), True, facets + ['gen2-raised'])
            res.viol('in-domain-raise:save:%s' % type(e).__name__,
                     'saving the reopened %s file as %s raised %r' % (
                         spec['format'], spec['format2'], e),
                     excmsg=str(e)[:300], fmt=spec['format2'], gen2=True)
            return
        strip_reserved(after, spec['format2'], res)
        problems = compare(after, after2, res)
        res.ev(digest([spec, 'gen2']), len(after.vars) > 0,
               ['gen2:' + spec['format2']])
        if problems:
            res.viol('roundtrip-differs', 'reopened %s file saved as %s: %s'
                     % (spec['format'], spec['format2'],
                        '; '.join(problems[:6])),
                     fmt=spec['format2'], problems=problems[:10], gen2=True)


def _text(v):
    # netCDF has one character type: a bytes attribute and the str of the
    # same characters are the same thing on disk
    if isinstance(v, (bytes, np.bytes_)):
        try:
            return v.decode('utf-8')
        except Exception:
            return v
    return v


def _native(vs):
    # byte order is an encoding of the container (the CAMx readers hand out
    # big-endian arrays, netCDF hands out native ones), not part of the value
    dt = np.dtype(vs.dtype)
    if dt.byteorder in '<>' and not dt.isnative:
        nd = dt.newbyteorder('=')
        return nd.str, np.asarray(vs.data).astype(nd)
    return vs.dtype, vs.data


def narrowed(a, b, prefix):
    """numeric attribute values held as numpy float32 / int16 / int32 (array
    or scalar) keep that type in every netCDF flavour; a value that comes
    back wider was converted on the way"""
    out = []
    for k, v in a.items():
        dt = getattr(v, 'dtype', None)
        if dt is None or k not in b or np.dtype(dt).newbyteorder('=') not in (
                np.dtype('f4'), np.dtype('i2'), np.dtype('i4')):
            continue
        gdt = getattr(b[k], 'dtype', None)
        if gdt is None or np.dtype(gdt).newbyteorder('=') != \
                np.dtype(dt).newbyteorder('='):
            out.append('%sattribute %s was written as %s and reads back as '
                       '%s (%r -> %r)' % (prefix, k, np.dtype(dt),
                                          gdt if gdt is not None
                                          else type(b[k]).__name__, v, b[k]))
    return out


def compare(before, after, res):
    if True:
        problems = []
        before.attrs = type(before.attrs)(
            (k, _text(v)) for k, v in before.attrs.items())
        if list(before.dims.items()) != list(after.dims.items()):
            problems.append('dimensions %s -> %s' % (list(before.dims.items()),
                                                     list(after.dims.items())))
        problems += snapshot.diff_attrs(before.attrs, after.attrs, 'global ',
                                        exact_type=False)
        problems += narrowed(before.attrs, after.attrs, 'global ')
        ka = list(before.attrs)
        kb = list(after.attrs)
        if not problems and ka != kb:
            problems.append('global attribute order %s -> %s' % (ka, kb))
        if list(before.vars) != list(after.vars):
            problems.append('variables %s -> %s' % (list(before.vars),
                                                    list(after.vars)))
        for k, vs in before.vars.items():
            if k not in after.vars:
                continue
            res.hook('oracle.compare')
            got = after.vars[k]
            exp_attrs = dict((ak, _text(av)) for ak, av in vs.attrs.items())
            ign = ['_FillValue'] if vs.masked_type else []
            ndt, ndata = _native(vs)
            problems += snapshot.check_var(
                got, k, dims=vs.dims, data=ndata, mask=vs.mask,
                attrs=exp_attrs, dtype=ndt, attr_ignore=ign)
            problems += narrowed(
                {ak: av for ak, av in vs.attrs.items() if ak not in ign and
                 ak not in ('_FillValue', 'missing_value', 'fill_value')},
                got.attrs, k + ': ')
        return problems
