"""C19 -- ICARTT (ffi1001) write/read round trip.

Monitor: ncf2ffi1001 output text, ffi1001 open (explicit and auto-detected),
second write/read cycle; oracles: field-by-field comparison with the file
handed to the writer and an independent text parse of the output."""
import os

import numpy as np

from .. import harness
from ..cli import digest

PROP = 'C19'
LEVEL = 'exploration'
RULE = ('1-D time-series files built through the public API: 1-200 records, '
        '1-8 dependent variables, values over 1e-30..1e30 incl. negative, '
        'zero, values at the 7th-significant-digit rounding boundary and '
        'values that differ from the missing code in the 6th/7th digit, '
        'missing codes {-9, -999, -9999, -99999, -9999999, -99999999}, '
        '0-8 header comment attributes, masked cells (none/some/all). Each '
        'file is written, parsed independently, re-opened explicitly and by '
        'auto-detection, cycled a second time, and a third time after '
        'editing units on the file read back; plus the bundled sample '
        '(space-delimited, real header comments) cycled twice. non-trivial = >= 2 '
        'records or a masked cell; distinct = digest of the spec.')
RULE += (' Also: integer time column, units with parentheses, an output path that earlier held a file of another format.')
RULE += (" Missing code 0; a source whose header declares scale factors other than 1 (the writer's text with line 11 edited): the reader owes data x factor and a written copy must read back the same values.")
RULE += (' One file in four is also stored as a netCDF file the way other tools store such series (values packed into short integers, missing cells by _FillValue only), opened as a plain netCDF file and written as ICARTT: what the netCDF file delivers must be read back.')
RULE += (' A quarter of the columns are single precision, most of them with a missing code float32 cannot hold exactly (-999.9, -9999.99, 1e30).')
ASSUMPTIONS = [
    'files carry one missing code per variable (fill_value == missing_value)',
    'values are compared to 7 significant digits (the %.6e text form)',
    'attribute values are single-line strings',
]
HOOKS = ['writer.return', 'text.parse', 'reader.return', 'auto.return',
         'scaled-source.return', 'netcdf-source.return',
         'second-cycle.return', 'edited-cycle.return']
MIN_DISTINCT = {'quick': 200, 'thorough': 4000}
N = {'quick': 400, 'thorough': 8000}
JOBS = {'quick': 8}
CODES = [-9, -999, -9999, -99999, -9999999, -99999999, 0, -8888]
COMMENTS = ['PI_CONTACT_INFO', 'PLATFORM', 'LOCATION', 'ASSOCIATED_DATA',
            'INSTRUMENT_INFO', 'DATA_INFO', 'UNCERTAINTY', 'REVISION']


def ncases(tier):
    return N[tier] + 1


def gen(rng, idx, tier, seed):
    if idx >= N[tier]:
        return {'sample': True}
    nrec = int(rng.choice([1, 2, 3, 5, 10, 50, 200]))
    nvar = int(rng.integers(1, 9))
    vars_ = []
    for i in range(nvar):
        vars_.append({
            'name': ['O3', 'NO2_ppbv', 'CO', 'Temp', 'Pressure', 'ALT_GPS',
                     'J_NO2', 'H2O'][i],
            'units': ['ppbv', 'ppbv', 'ppmv', 'K', 'hPa', 'm', '1/s',
                      'g/kg'][i],
            'code': int(rng.choice(CODES)),
            'mag': float(10.0 ** rng.integers(-30, 31)) if rng.random() < 0.3
            else float(rng.choice([1.0, 50.0, 1e3, 1e-3])),
            'mask': str(rng.choice(['none', 'some', 'some', 'all'])),
            'boundary': bool(rng.random() < 0.2),
            # valid values that differ from the variable's missing code only
            # in the sixth/seventh significant digit
            'nearcode': bool(rng.random() < 0.25),
        })
        if rng.random() < 0.2:
            # units with parentheses
            vars_[-1]['units'] = str(rng.choice(['W/(m2 sr)', 'ug/m3 (STP)',
                                                 'mol/(m2 s)']))
    ncom = int(rng.integers(0, 9))
    spec_seed = int(rng.integers(1 << 30))
    r2 = np.random.default_rng([spec_seed, 191])
    for vs in vars_:
        if r2.random() < 0.25:
            # a single-precision column (what a float netCDF variable
            # becomes), with a missing code float32 cannot hold exactly
            vs['dtype'] = 'f'
            vs['mag'] = float(min(max(vs['mag'], 1e-25), 1e25))
            if r2.random() < 0.7:
                vs['code'] = float(r2.choice([-999.9, -9999.99, 1e30,
                                              -8888.8]))
    return {'nrec': nrec, 'vars': vars_, 'seed': spec_seed,
            'tpos': int(rng.integers(0, nvar + 1)) if rng.random() < 0.4
            else 0,
            'comments': [str(x) for x in rng.permutation(COMMENTS)[:ncom]],
            'time_interval': int(rng.choice([1, 10, 60])),
            # the independent variable stored as integer seconds
            'time_dtype': str(rng.choice(['d', 'd', 'i'])),
            'reused_path': bool(rng.random() < 0.2)}


def build(spec):
    import PseudoNetCDF as pnc
    rng = np.random.default_rng([spec['seed'], 51])
    f = pnc.PseudoNetCDFFile()
    n = spec['nrec']
    f.createDimension('POINTS', n)
    def add_time():
        t = f.createVariable('Start_UTC', spec.get('time_dtype', 'd'),
                             ('POINTS',))
        t.units = 'seconds'
        t.standard_name = 'Start_UTC'
        t[:] = 36000.0 + spec['time_interval'] * np.arange(n)
    # the independent variable need not be the first one defined (hand-built
    # or netCDF-derived files)
    tpos = spec.get('tpos', 0)
    for vi, vs in enumerate(spec['vars'] + [None]):
        if vi == tpos:
            add_time()
        if vs is None:
            break
        vals = rng.normal(0, 1, n) * vs['mag']
        if vs['boundary']:
            # values that sit on the rounding boundary of the 7th digit
            vals = np.float64(1.2345675) * vs['mag'] * np.sign(
                rng.normal(0, 1, n) + 0.1)
        if n > 2:
            # (a valid value that equals the missing code is not
            # representable in the format: no valid zeros under code 0)
            vals[int(rng.integers(n))] = 0.0 if float(vs['code']) != 0 \
                else 2.5e-7
        if vs.get('nearcode') and n > 1:
            code = float(vs['code'])
            near = code * (1 - 3e-6) if code != 0 else 5e-9
            vals[int(rng.integers(n))] = near
            vals[int(rng.integers(n))] = code * (1 + 4e-6) if code != 0 \
                else -5e-9
        if vs['mask'] == 'none':
            m = np.zeros(n, bool)
        elif vs['mask'] == 'all':
            m = np.ones(n, bool)
        else:
            m = rng.random(n) < 0.3
        v = f.createVariable(vs['name'], vs.get('dtype', 'd'), ('POINTS',),
                             fill_value=float(vs['code']))
        v.units = vs['units']
        v.standard_name = vs['name']
        v.missing_value = float(vs['code'])
        v[:] = np.ma.masked_array(vals, mask=m)
    f.PI_NAME = 'Doe, Jane'
    f.ORGANIZATION_NAME = 'pncmon'
    f.SOURCE_DESCRIPTION = 'synthetic'
    f.MISSION_NAME = 'VERIF'
    f.VOLUME_INFO = '1, 1'
    f.SDATE = '2010, 06, 15'
    f.WDATE = '2011, 01, 02'
    f.TIME_INTERVAL = str(spec['time_interval'])
    f.INDEPENDENT_VARIABLE = 'Start_UTC'
    for k in spec['comments']:
        setattr(f, k, 'text about %s' % k.lower())
    return f


def snap(f):
    out = {}
    for k in f.variables.keys():
        v = f.variables[k]
        a = v[...]
        out[k] = {'data': np.array(np.ma.getdata(a), 'f8', copy=True),
                  'mask': np.array(np.ma.getmaskarray(a), copy=True),
                  'units': getattr(v, 'units', None),
                  'missing': getattr(v, 'missing_value', None)}
    return out


def sig7(a, b):
    """equal to seven significant digits"""
    a, b = np.asarray(a, 'f8'), np.asarray(b, 'f8')
    tol = 5.1e-7 * np.maximum(np.abs(a), np.abs(b))
    return np.abs(a - b) <= tol


def compare(before, after, indep, who, strict_indep_units=False):
    p = []
    # the format puts the independent variable in the first column: the
    # order of the DEPENDENT variables is what can be preserved
    kb = [indep] + [k for k in before if k != indep]
    ka = list(after)
    if kb != ka:
        p.append('%s: variable names/order %s -> %s' % (who, kb, ka))
    for k in kb:
        if k not in after:
            continue
        a, b = before[k], after[k]
        if a['data'].shape != b['data'].shape:
            p.append('%s: %s has %s values, had %s' % (who, k,
                                                      b['data'].shape,
                                                      a['data'].shape))
            continue
        if not np.array_equal(a['mask'], b['mask']):
            i = int(np.argmax(a['mask'] != b['mask']))
            p.append('%s: %s mask of missing data differs at %d cells '
                     '(record %d: was %s)' % (who, k, int((a['mask'] != b[
                         'mask']).sum()), i, a['mask'][i]))
        else:
            keep = ~a['mask']
            ok = sig7(a['data'][keep], b['data'][keep])
            if not ok.all():
                i = int(np.argmax(~ok))
                p.append('%s: %s value %r -> %r' % (
                    who, k, a['data'][keep][i], b['data'][keep][i]))
        if k != indep or strict_indep_units:
            if str(a['units']).strip() != str(b['units']).strip():
                p.append('%s: %s units %r -> %r' % (who, k, a['units'],
                                                    b['units']))
        if k != indep and a['missing'] is not None:
            if b['missing'] is None or float(a['missing']) != float(
                    b['missing']):
                p.append('%s: %s missing code %r -> %r' % (
                    who, k, a['missing'], b['missing']))
    return p


def parse_text(text, nvars_expected, nrec_expected):
    """independent parse of the header arithmetic"""
    p = []
    lines = text.split('\n')
    if lines and lines[-1] == '':
        lines = lines[:-1]
    first = [x.strip() for x in lines[0].split(',')]
    if len(first) != 2 or first[1] != '1001':
        return ['first line %r' % lines[0]]
    nh = int(first[0])
    ndep = int(lines[9].strip())
    if ndep != nvars_expected:
        p.append('declared %d dependent variables, file has %d'
                 % (ndep, nvars_expected))
    scales = [x.strip() for x in lines[10].split(',')]
    miss = [x.strip() for x in lines[11].split(',')]
    if len(scales) != ndep or len(miss) != ndep:
        p.append('scale/missing lines list %d/%d entries for %d variables'
                 % (len(scales), len(miss), ndep))
    nspecial = int(lines[12 + ndep].strip())
    nnormal = int(lines[12 + ndep + 1 + nspecial].strip())
    expected_nh = 12 + ndep + 1 + nspecial + 1 + nnormal + 1
    if nh != expected_nh:
        p.append('declared header length %d, counted %d' % (nh, expected_nh))
    if nh > len(lines):
        p.append('declared header length %d exceeds the file (%d lines)'
                 % (nh, len(lines)))
        return p
    cols = [x.strip() for x in lines[nh - 1].split(',')]
    if len(cols) != ndep + 1:
        p.append('line %d (column names) has %d names for %d variables: %r'
                 % (nh, len(cols), ndep + 1, lines[nh - 1][:80]))
    data = lines[nh:]
    if len(data) != nrec_expected:
        p.append('%d data rows, expected %d' % (len(data), nrec_expected))
    for row in data[:3]:
        try:
            vals = [float(x) for x in row.split(',')]
            if len(vals) != ndep + 1:
                p.append('data row with %d values' % len(vals))
        except ValueError:
            p.append('line after the header is not numeric: %r' % row[:60])
    return p


def run_sample(spec, res):
    """the ICARTT sample bundled with the library (space-delimited, real
    header comments): read -> write -> read (also by auto-detection) ->
    write -> read"""
    import PseudoNetCDF as pnc
    from PseudoNetCDF.icarttfiles.ffi1001 import ffi1001, ncf2ffi1001
    from PseudoNetCDF.testcase import icarttfiles_paths
    src = [v for v in icarttfiles_paths.values()][0]
    problems = []
    with harness.casedir() as d:
        try:
            f = ffi1001(src)
            res.hook('reader.return')
            s0 = snap(f)
            indep = str(getattr(f, 'INDEPENDENT_VARIABLE', 'Start_UTC'))
            prev, cur = s0, f
            for n, who in ((1, 'sample cycle 1'), (2, 'sample cycle 2')):
                p = os.path.join(d, 'c%d.ict' % n)
                ncf2ffi1001(cur, p).close()
                res.hook('writer.return')
                cur = ffi1001(p)
                res.hook('reader.return' if n == 1 else
                         'second-cycle.return')
                now = snap(cur)
                problems += compare(prev, now, indep, who)
                prev = now
            h = pnc.pncopen(p)
            res.hook('auto.return')
            if type(h).__name__ != 'ffi1001':
                problems.append('sample: auto-detection chose %s'
                                % type(h).__name__)
        except Exception as e:
            problems.append('sample raised %r' % (e,))
    res.ev(digest(spec), True, ['sample'])
    if problems:
        res.viol('icartt-roundtrip-differs:sample', '; '.join(problems[:5]),
                 problems=problems[:10])


def run(spec, res):
    if spec.get('sample'):
        return run_sample(spec, res)
    import PseudoNetCDF as pnc
    from PseudoNetCDF.icarttfiles.ffi1001 import ffi1001, ncf2ffi1001
    f = build(spec)
    before = snap(f)
    dg = digest(spec)
    nontriv = spec['nrec'] >= 2 or any(v['mask'] != 'none'
                                       for v in spec['vars'])
    problems = []
    longcode = any(len(str(abs(v['code']))) > 7 for v in spec['vars'])
    with harness.casedir() as d:
        p1 = os.path.join(d, 'a.ict')
        if spec.get('reused_path'):
            # the output path held a netCDF file that this process has
            # already opened by auto-detection
            try:
                import netCDF4
                ds = netCDF4.Dataset(p1, 'w', format='NETCDF3_CLASSIC')
                ds.createDimension('x', 2)
                ds.createVariable('v', 'f4', ('x',))[:] = [1, 2]
                ds.close()
                pnc.pncopen(p1).close()
                os.remove(p1)
                res.facet('reused-path')
            except Exception:
                res.note('reused-path-setup-failed')
        try:
            o = ncf2ffi1001(f, p1)
            o.close()
            res.hook('writer.return')
        except Exception as e:
            res.hook('writer.return')
            res.ev(dg, nontriv, 'writer-raised')
            res.viol('writer-raised:%s' % type(e).__name__,
                     'ncf2ffi1001 raised %r' % (e,))
            return
        text = open(p1).read()
        res.hook('text.parse')
        try:
            problems += ['text: ' + x for x in parse_text(
                text, len(spec['vars']), spec['nrec'])]
        except Exception as e:
            problems.append('text: output not parseable: %r' % (e,))
        g = None
        try:
            g = ffi1001(p1)
            res.hook('reader.return')
            after = snap(g)
            problems += compare(before, after, 'Start_UTC', 'reopen',
                                strict_indep_units=True)
            iu = after.get('Start_UTC', {}).get('units')
            if str(iu).strip() != 'seconds':
                res.note('independent-variable-units-lost')
        except Exception as e:
            res.hook('reader.return')
            problems.append('re-opening the written file raised %r' % (e,))
        try:
            h = pnc.pncopen(p1)
            res.hook('auto.return')
            if type(h).__name__ != 'ffi1001':
                problems.append('auto-detection chose %s'
                                % type(h).__name__)
        except Exception as e:
            res.hook('auto.return')
            problems.append('auto-detected open raised %r' % (e,))
        if g is not None and not problems:
            p2 = os.path.join(d, 'b.ict')
            try:
                o = ncf2ffi1001(g, p2)
                o.close()
                g2 = ffi1001(p2)
                res.hook('second-cycle.return')
                after2 = snap(g2)
                c2 = compare(after, after2, 'Start_UTC', 'second cycle',
                             strict_indep_units=True)
                problems += c2
                if not c2:
                    # a file read from ICARTT, edited, written again: the
                    # output must carry the edited units
                    p3 = os.path.join(d, 'c.ict')
                    g2.variables['Start_UTC'].units = 'hours'
                    dk = spec['vars'][0]['name']
                    g2.variables[dk].units = 'edited_unit'
                    o = ncf2ffi1001(g2, p3)
                    o.close()
                    g3 = ffi1001(p3)
                    res.hook('edited-cycle.return')
                    for k, want in (('Start_UTC', 'hours'),
                                    (dk, 'edited_unit')):
                        gotu = str(getattr(g3.variables[k], 'units',
                                           None)).strip()
                        if gotu != want:
                            problems.append(
                                'edited cycle: %s units set to %r before '
                                'writing, read back %r' % (k, want, gotu))
            except Exception as e:
                res.hook('second-cycle.return')
                problems.append('second write/read cycle raised %r' % (e,))
        if g is not None and not problems and spec['seed'] % 4 == 1:
            # the same series held in a netCDF file as another tool stores
            # it (values packed into short integers), opened as a plain
            # netCDF file and written as ICARTT: what the netCDF file
            # delivers is what must be read back
            try:
                pn = os.path.join(d, 'packed.nc')
                harness.write_foreign(f, pn)
                gn = pnc.pncopen(pn, format='netcdf')
                try:
                    src = snap(gn)
                    # the writer declares a missing code per variable; a
                    # packed value that happens to equal it is not
                    # representable in the text format
                    clash = False
                    for k_, sv in src.items():
                        code = getattr(gn.variables[k_], 'missing_value',
                                       -999)
                        if (sv['data'][~sv['mask']] == float(code)).any():
                            clash = True
                    p5 = os.path.join(d, 'e.ict')
                    if not clash:
                        o = ncf2ffi1001(gn, p5)
                        o.close()
                finally:
                    gn.close()
                if clash:
                    res.note('netcdf-source:value-equals-missing-code')
                else:
                    g5 = ffi1001(p5)
                    res.hook('netcdf-source.return')
                    c5 = compare(src, snap(g5), 'Start_UTC',
                                 'packed netCDF source')
                    # (the packed file keeps no missing_value attribute: the
                    # writer's default code applies)
                    problems += [x for x in c5 if 'missing code' not in x]
            except Exception as e:
                res.hook('netcdf-source.return')
                problems.append('packed netCDF source: raised %r' % (e,))
        if g is not None and not problems and spec['seed'] % 3 == 0:
            # a source whose header DECLARES scale factors (instrument files
            # do): the text is the writer's own, with line 11 edited.  The
            # reader owes data x factor; a written copy must read back the
            # very same values (the factors are spent)
            try:
                lines = text.split('\n')
                nd = len(spec['vars'])
                facs = [[0.1, 10.0, 1000.0, 1.0, 0.5][
                    (spec['seed'] // 3 + i) % 5] for i in range(nd)]
                lines[10] = ', '.join(repr(x) for x in facs)
                ps = os.path.join(d, 's.ict')
                with open(ps, 'w') as fh:
                    fh.write('\n'.join(lines))
                gs = ffi1001(ps)
                res.hook('scaled-source.return')
                ss = snap(gs)
                want = {k: dict(v) for k, v in after.items()}
                for i, vs in enumerate(spec['vars']):
                    want[vs['name']] = dict(
                        want[vs['name']],
                        data=want[vs['name']]['data'] * facs[i])
                sp = compare(want, ss, 'Start_UTC', 'source with scale '
                             'factors %s' % facs)
                problems += sp
                if not sp:
                    p4 = os.path.join(d, 'd.ict')
                    o = ncf2ffi1001(gs, p4)
                    o.close()
                    g4 = ffi1001(p4)
                    res.hook('scaled-source.return')
                    problems += compare(ss, snap(g4), 'Start_UTC',
                                        'copy of a source with scale '
                                        'factors %s' % facs)
            except Exception as e:
                res.hook('scaled-source.return')
                problems.append('source with scale factors: raised %r'
                                % (e,))
    res.ev(dg, nontriv, ['nrec:%d' % spec['nrec'],
                         'nvar:%d' % len(spec['vars']),
                         'ncom:%d' % len(spec['comments'])])
    if problems:
        res.viol('icartt-roundtrip-differs', '; '.join(problems[:5]),
                 problems=problems[:10], longcode=longcode,
                 codes=[v['code'] for v in spec['vars']])
