"""C18 -- GEOS-Chem binary punch read/write round trip and scaling.

Monitor: bpch1 / bpch / bpch2 opens of reference-encoded images and
pncgen(..., format='bpch'); oracles: byte identity of read(noscale)->write,
raw x SCALE with the unit of the tracer-table row chosen by category offset +
tracer id, read(write(f)) == f, bpch2 == bpch1, and the independent decoder
on the written bytes."""
import os

import numpy as np

from .. import harness, refbpch
from ..cli import digest

PROP = 'C18'
LEVEL = 'exploration'
RULE = ('reference-encoded bpch images with 1-4 time blocks, 1-3 diagnostic '
        'categories x 1-5 tracers with DIFFERENT layer counts per tracer, '
        'nested-grid offsets (I0/J0/L0), random tracerinfo/diaginfo tables '
        'whose offset + id collide across categories unless computed '
        'correctly; four laws per image: (1) read(noscale) -> write '
        'reproduces the bytes, (2) scaled read == raw x SCALE and the unit '
        'is the table row\'s, (3) read(write(f)) == f, (4) the block-walking '
        'reader presents the same data as the memory-mapped one; plus (2b) '
        'tables rewritten in place between two opens, (5) write from a '
        'scaled read, and every sixth image an irregular layout (an interior '
        'time block carries another tracer in one slot) that the fixed-layout '
        'reader must reject or read right and the default reader must '
        'present block by block; plus the bundled sample file with its '
        'tables (independent fixed-column table parser). '
        'non-trivial = >= 2 data blocks; distinct = digest of the spec.')
RULE += (' The grid header (halfpolar and center180 drawn independently, model name, resolution) both readers state is compared with the file, and the latitude/longitude cells both derive from it with each other.')
RULE += (' Law 5c (every second file): the file read with and without scaling is saved as netCDF, opened as a plain netCDF file and written as bpch again; the independent decoder must find the original raw values.')
RULE += (' One multi-step file in nine has time blocks that start together and end apart (same tau0, different tau1), each a time block of its own for both readers.')
RULE += (' One file in three is also opened with nogroup=True and with lists of groups (first group; last group plus a group not in the file): tracer variables carry the prefix of exactly the groups not listed, data as in the default open.')
ASSUMPTIONS = [
    'the reference codec follows the GEOS-Chem/GAMAP "CTM bin 02" '
    'description; shared misreadings of that description are out of reach',
    'scaled values are compared with 4 float32 ulps (one multiplication)',
]
HOOKS = ['bpch.return', 'bpch1.return', 'writer.return', 'bpch2.return', 'oracle.compare']
MIN_DISTINCT = {'quick': 150, 'thorough': 2500}
N = {'quick': 300, 'thorough': 6000}
JOBS = {'quick': 8}


def ncases(tier):
    return N[tier] + 1


def gen(rng, idx, tier, seed):
    if idx >= N[tier]:
        return {'sample': True}
    spec = refbpch.gen_spec(rng)
    if idx % 6 == 5 and len(spec['tracers']) >= 2:
        # an interior time block carries another tracer of the same shape in
        # one slot (first and last block alike): the fixed-layout reader
        # cannot represent the file; the default reader must still present
        # every block under its own name
        import copy
        spec['nt'] = int(rng.integers(3, 5))
        # not the first slot: the first tracer's recurrence is what tells
        # a reader where a time block ends
        slot = int(rng.integers(1, len(spec['tracers'])))
        alt = copy.deepcopy(spec['tracers'][slot])
        alt.pop('norow', None)
        # a tracer table holds one row per number (offset + id)
        off = spec['offsets'][alt['cat']]
        used = {spec['offsets'][tr['cat']] + tr['id']
                for tr in spec['tracers']}
        alt['id'] = next(i for i in range(1, 40) if off + i not in used)
        alt['name'] = 'ALT%d' % alt['id']
        alt['scale'] = float(rng.choice([1.0, 1e9, 0.5]))
        spec['irregular'] = {'slot': slot, 'alt': alt}
    return spec


def lay_tables(d, spec):
    with open(os.path.join(d, 'tracerinfo.dat'), 'w') as fh:
        fh.write(refbpch.tracerinfo_text(spec))
    with open(os.path.join(d, 'diaginfo.dat'), 'w') as fh:
        fh.write(refbpch.diaginfo_text(spec))


def check_read(f, c, spec, scaled, who, res):
    problems = []
    keys = list(f.variables.keys())
    for k, raw in c['vars'].items():
        res.hook('oracle.compare')
        if k not in keys:
            problems.append('%s: variable %s not exposed (%s)'
                            % (who, k, [x for x in keys if '_' in x][:6]))
            continue
        v = f.variables[k]
        got = np.asarray(v[...])
        m = c['meta'][k]
        if m.get('norow') and scaled:
            # no table row of its own: scale/unit are not defined by the
            # tables; only the raw read is judged for this tracer
            continue
        exp = raw * np.float32(m['scale']) if scaled else raw
        if got.shape != exp.shape:
            problems.append('%s: %s shape %s, encoded %s' % (who, k,
                                                             got.shape,
                                                             exp.shape))
            continue
        if scaled:
            ok = np.allclose(got.astype('f8'), raw.astype('f8') * m['scale'],
                             rtol=4 * np.finfo('f4').eps, atol=0)
        else:
            ok = got.astype('f4').tobytes() == exp.tobytes()
        if not ok:
            i = tuple(np.argwhere(~np.isclose(
                got.astype('f8'), raw.astype('f8') * (
                    m['scale'] if scaled else 1), rtol=1e-6))[0])
            problems.append('%s: %s[%s] = %r, expected raw %r x scale %r'
                            % (who, k, i, got[i], raw[i],
                               m['scale'] if scaled else 1))
        if scaled and str(getattr(v, 'units', None)).strip() != m['unit']:
            problems.append('%s: %s units %r, table row says %r'
                            % (who, k, getattr(v, 'units', None), m['unit']))
        if int(getattr(v, 'tracerid', -1)) != m['tracerid']:
            problems.append('%s: %s tracerid %r, encoded %r'
                            % (who, k, getattr(v, 'tracerid', None),
                               m['tracerid']))
        cat = getattr(v, 'category', None)
        cat = cat.decode() if isinstance(cat, bytes) else cat
        if str(cat).strip() != m['category']:
            problems.append('%s: %s category %r, encoded %r'
                            % (who, k, cat, m['category']))
    for tk in ('tau0', 'tau1'):
        try:
            got = [float(x) for x in np.asarray(f.variables[tk][...])]
            if got != c[tk]:
                problems.append('%s: %s %s, encoded %s' % (who, tk, got,
                                                           c[tk]))
        except Exception as e:
            problems.append('%s: %s unreadable %r' % (who, tk, e))
    return problems


def run_irregular(spec, res):
    from PseudoNetCDF.geoschemfiles import bpch, bpch1
    img = refbpch.encode(spec)
    c = refbpch.content(spec)
    dg = digest(spec)
    problems = []

    def compare(f, who, scaled=True):
        out = []
        keys = list(f.variables.keys())
        for k, raw in c['vars'].items():
            res.hook('oracle.compare')
            m = c['meta'][k]
            if m.get('norow'):
                continue
            if k not in keys:
                out.append('%s: blocks of %s are not presented (%s)'
                           % (who, k, [x for x in keys if '_' in x][:6]))
                continue
            got = np.asarray(f.variables[k][...])
            if got.shape != raw.shape:
                out.append('%s: %s has shape %s; the file holds %d blocks '
                           'of shape %s for it' % (who, k, got.shape,
                                                   raw.shape[0],
                                                   raw.shape[1:]))
                continue
            if not np.allclose(got.astype('f8'), raw.astype('f8') *
                               (m['scale'] if scaled else 1.0),
                               rtol=4 * np.finfo('f4').eps, atol=0):
                out.append('%s: %s does not hold the data of its own blocks '
                           '(times %s)' % (who, k, c['times'][k]))
        return out
    with harness.casedir() as d:
        path = os.path.join(d, 'in.bpch')
        with open(path, 'wb') as fh:
            fh.write(img)
        lay_tables(d, spec)
        kw = dict(tracerinfo=os.path.join(d, 'tracerinfo.dat'),
                  diaginfo=os.path.join(d, 'diaginfo.dat'))
        try:
            f1 = bpch1(path, **kw)
            res.hook('bpch1.return')
            problems += compare(f1, 'bpch1 accepted the file')
        except Exception:
            res.hook('bpch1.return')
            res.facet('irregular:bpch1-rejects')
        try:
            f0 = bpch(path, **kw)
            res.hook('bpch.return')
            problems += compare(f0, 'default reader bpch')
            f0r = bpch(path, noscale=True, **kw)
            res.hook('bpch.return')
            problems += compare(f0r, 'default reader bpch(noscale=True)',
                                scaled=False)
        except Exception as e:
            res.hook('bpch.return')
            problems.append('default reader bpch raised %r' % (e,))
    res.ev(dg, True, ['irregular', 'nt:%d' % spec['nt']])
    if problems:
        res.viol('bpch-law-broken:irregular', '; '.join(problems[:5]),
                 problems=problems[:10], slot=spec['irregular']['slot'])


def parse_tables(tpath, dpath):
    """independent fixed-column parser of tracerinfo.dat / diaginfo.dat ->
    ({tracer number: (name, scale, unit)}, {category: offset})"""
    rows, offs = {}, {}
    for line in open(tpath):
        if line.startswith('#') or not line.strip():
            continue
        # A8,1X,A30,E10.0,I3,I9,E10.3,1X,A40
        num = int(line[52:61])
        if num not in rows:
            rows[num] = (line[0:8].strip(), float(line[61:71]),
                         line[72:].strip())
    for line in open(dpath):
        if line.startswith('#') or not line.strip():
            continue
        offs[line[9:49].strip()] = int(line[0:8])
    return rows, offs


def run_sample(spec, res):
    """the sample bpch file bundled with the library, judged against the
    independent decoder and an independent reading of its tables"""
    from PseudoNetCDF.geoschemfiles import bpch1, bpch2
    from PseudoNetCDF.pncgen import pncgen
    from PseudoNetCDF.testcase import geoschemfiles_paths
    path = geoschemfiles_paths['bpch']
    tdir = os.path.dirname(path)
    img = open(path, 'rb').read()
    dec = refbpch.decode(img)
    rows, offs = parse_tables(os.path.join(tdir, 'tracerinfo.dat'),
                              os.path.join(tdir, 'diaginfo.dat'))
    exp = {}
    for b in dec['blocks']:
        num = offs.get(b['category'], 0) + b['tracerid']
        if num not in rows:
            continue
        name, scale, unit = rows[num]
        e = exp.setdefault('%s_%s' % (b['category'], name),
                           {'raw': [], 'scale': scale, 'unit': unit})
        e['raw'].append(b['data'])
    problems = []
    try:
        fs = bpch1(path)
        fr = bpch1(path, noscale=True)
        f2 = bpch2(path)
        res.hook('bpch1.return', 2)
        res.hook('bpch2.return')
        keys = list(fs.variables.keys())
        for k, e in exp.items():
            res.hook('oracle.compare')
            raw = np.stack(e['raw'], 0)
            if k not in keys:
                problems.append('sample: %s not exposed' % k)
                continue
            for f, sc, who in ((fs, e['scale'], 'scaled'),
                               (fr, 1.0, 'noscale'), (f2, e['scale'],
                                                      'bpch2')):
                if k not in f.variables.keys():
                    problems.append('sample %s: %s not exposed' % (who, k))
                    continue
                got = np.asarray(f.variables[k][...])
                if got.shape != raw.shape or not np.allclose(
                        got.astype('f8'), raw.astype('f8') * sc,
                        rtol=4 * np.finfo('f4').eps, atol=0):
                    problems.append('sample %s: %s is not raw x %g'
                                    % (who, k, sc))
            if str(getattr(fs.variables[k], 'units', '')).strip() != \
                    e['unit']:
                problems.append('sample: %s units %r, table says %r' % (
                    k, getattr(fs.variables[k], 'units', None), e['unit']))
        with harness.casedir() as d:
            out = os.path.join(d, 'out.bpch')
            o = pncgen(fr, out, format='bpch', verbose=0)
            o.close()
            res.hook('writer.return')
            if open(out, 'rb').read() != img:
                problems.append('sample: read(noscale) -> write differs '
                                'from the sample bytes')
    except Exception as e:
        problems.append('sample raised %r' % (e,))
    res.ev(digest(spec), True, ['sample', 'ntracers:%d' % len(exp)])
    if problems:
        res.viol('bpch-law-broken:sample', '; '.join(problems[:5]),
                 problems=problems[:10])


def run(spec, res):
    if spec.get('sample'):
        return run_sample(spec, res)
    if spec.get('irregular'):
        return run_irregular(spec, res)
    from PseudoNetCDF.geoschemfiles import bpch1, bpch2
    from PseudoNetCDF.pncgen import pncgen
    img = refbpch.encode(spec)
    c = refbpch.content(spec)
    dg = digest(spec)
    nblocks = spec['nt'] * len(spec['tracers'])
    facets = ['nt:%d' % spec['nt'], 'ncat:%d' % len(spec['cats']),
              'ntracers:%d' % len(spec['tracers'])]
    problems = []
    with harness.casedir() as d:
        path = os.path.join(d, 'in.bpch')
        with open(path, 'wb') as fh:
            fh.write(img)
        lay_tables(d, spec)
        kw = dict(tracerinfo=os.path.join(d, 'tracerinfo.dat'),
                  diaginfo=os.path.join(d, 'diaginfo.dat'))
        # (2) scaled read
        try:
            fs = bpch1(path, **kw)
            res.hook('bpch1.return')
            problems += check_read(fs, c, spec, True, 'bpch1(scaled)', res)
        except Exception as e:
            res.hook('bpch1.return')
            res.ev(dg, nblocks >= 2, facets + ['bpch1-raised'])
            res.viol('bpch1-raised:%s' % type(e).__name__,
                     'bpch1 on a reference image raised %r' % (e,),
                     excmsg=str(e)[:300])
            return
        # (2b) the tables next to the file change (same paths, same
        # process): a new open reads the new scale factors and units
        import copy
        spec2 = copy.deepcopy(spec)
        for tr in spec2['tracers']:
            tr['scale'] = tr['scale'] * 1000.
            tr['unit'] = 'pptv' if tr['unit'] != 'pptv' else 'ppbv'
        lay_tables(d, spec2)
        try:
            fs2 = bpch1(path, **kw)
            res.hook('bpch1.return')
            problems += check_read(fs2, refbpch.content(spec2), spec2, True,
                                   'bpch1(scaled, tables rewritten in place)',
                                   res)
            del fs2
        except Exception as e:
            res.hook('bpch1.return')
            problems.append('bpch1 after rewriting the tables in place '
                            'raised %r' % (e,))
        lay_tables(d, spec)
        # (2c) the nogroup keyword: True serves every tracer without its
        # group prefix, a list of groups drops the prefix for those groups
        # only; the data are those of the default open
        cats = list(dict.fromkeys(m['category'] for m in c['meta'].values()))
        for ng in [True, [cats[0]], [cats[-1], 'NOT-IN-FILE']][
                :3 if spec['seed'] % 3 == 0 else 0]:
            want = {}
            for k, m in c['meta'].items():
                short = k[len(m['category']) + 1:]
                want[k] = short if (ng is True or m['category'] in ng) else k
            if len(set(want.values())) != len(want):
                continue     # two groups hold a tracer of that name
            try:
                fg = bpch1(path, nogroup=ng, **kw)
                res.hook('bpch1.return')
                gk = list(fg.variables.keys())
                for k, nk in want.items():
                    other = k if nk != k else k[len(
                        c['meta'][k]['category']) + 1:]
                    if nk not in gk:
                        problems.append(
                            'bpch1(nogroup=%r): tracer %s is not served as '
                            '%s (tracer variables %s)' % (
                                ng, k, nk, [x for x in gk
                                            if x in want.values() or
                                            x in want][:8]))
                    elif other in gk and other not in want.values():
                        problems.append(
                            'bpch1(nogroup=%r): tracer %s is served as %s '
                            'and as %s' % (ng, k, nk, other))
                    elif np.asarray(fg.variables[nk][...]).tobytes() != \
                            np.asarray(fs.variables[k][...]).tobytes():
                        problems.append(
                            'bpch1(nogroup=%r): %s differs from %s of the '
                            'default open' % (ng, nk, k))
                del fg
            except Exception as e:
                res.hook('bpch1.return')
                problems.append('bpch1(nogroup=%r) raised %r' % (ng, e))
        # (1) noscale read -> write == bytes
        fr = bpch1(path, noscale=True, **kw)
        res.hook('bpch1.return')
        problems += check_read(fr, c, spec, False, 'bpch1(noscale)', res)
        od = os.path.join(d, 'out')
        os.mkdir(od)
        out = os.path.join(od, 'out.bpch')
        try:
            o = pncgen(fr, out, format='bpch', verbose=0)
            o.close()
            res.hook('writer.return')
            wrote = open(out, 'rb').read()
            if wrote != img:
                try:
                    dec = refbpch.decode(wrote)
                    detail = 'decodable, %d blocks (image has %d)' % (
                        len(dec['blocks']), nblocks)
                    ref = refbpch.decode(img)
                    for bi, (a, b) in enumerate(zip(dec['blocks'],
                                                    ref['blocks'])):
                        for fld in a:
                            same = np.array_equal(a[fld], b[fld]) \
                                if fld == 'data' else a[fld] == b[fld]
                            if not same:
                                detail += '; block %d field %s: %r vs %r' % (
                                    bi, fld, a[fld] if fld != 'data'
                                    else 'data', b[fld] if fld != 'data'
                                    else 'data')
                                break
                        else:
                            continue
                        break
                except Exception as e:
                    detail = 'not decodable: %s' % e
                n = min(len(wrote), len(img))
                first = next((i for i in range(n) if wrote[i] != img[i]), n)
                problems.append('read(noscale)->write differs from the '
                                'original (sizes %d/%d, first difference at '
                                'byte %d; %s)' % (len(wrote), len(img),
                                                  first, detail))
            # (3) read(write(f)) == f
            lay_tables(od, spec)
            g = bpch1(out, noscale=True,
                      tracerinfo=os.path.join(od, 'tracerinfo.dat'),
                      diaginfo=os.path.join(od, 'diaginfo.dat'))
            res.hook('bpch1.return')
            problems += check_read(g, c, spec, False, 'read(write(f))', res)
            for att in ('modelname', 'halfpolar', 'center180'):
                a, b = getattr(fr, att), getattr(g, att)
                if a != b:
                    problems.append('grid header %s: %r -> %r' % (att, a, b))
            if tuple(np.asarray(fr.modelres).tolist()) != tuple(
                    np.asarray(g.modelres).tolist()):
                problems.append('grid header modelres %r -> %r'
                                % (fr.modelres, g.modelres))
        except Exception as e:
            res.hook('writer.return')
            problems.append('writer / re-read raised %r' % (e,))
        # (5) write from a SCALED read: the file must hold the raw values
        # again (up to one float32 rounding of x*s/s) and re-read the same
        od2 = os.path.join(d, 'out2')
        os.mkdir(od2)
        out2 = os.path.join(od2, 'out.bpch')
        try:
            o = pncgen(fs, out2, format='bpch', verbose=0)
            o.close()
            res.hook('writer.return')
            dec = refbpch.decode(open(out2, 'rb').read())
            ref = refbpch.decode(img)
            if len(dec['blocks']) != len(ref['blocks']):
                problems.append('write from the scaled read holds %d blocks, '
                                'original %d' % (len(dec['blocks']),
                                                 len(ref['blocks'])))
            else:
                for bi, (a, b) in enumerate(zip(dec['blocks'],
                                                ref['blocks'])):
                    if (a['category'], a['tracerid']) != (b['category'],
                                                          b['tracerid']):
                        problems.append('write from the scaled read: block '
                                        '%d is %s/%d, original %s/%d' % (
                                            bi, a['category'], a['tracerid'],
                                            b['category'], b['tracerid']))
                        break
                    if a['data'].shape != b['data'].shape or not np.allclose(
                            a['data'].astype('f8'), b['data'].astype('f8'),
                            rtol=8 * np.finfo('f4').eps, atol=0):
                        problems.append(
                            'write from the scaled read: raw values of block '
                            '%d (%s tracer %d) are off by a factor ~%.3g'
                            % (bi, a['category'], a['tracerid'], float(
                                np.median(a['data'] / b['data']))))
                        break
        except Exception as e:
            res.hook('writer.return')
            problems.append('writer (from scaled read) raised %r' % (e,))
        # (5b) an in-memory copy of the scaled read written twice: the
        # writer must not consume its source (both files hold the raw values
        # and the copy is unchanged)
        od3 = os.path.join(d, 'out3')
        os.mkdir(od3)
        try:
            g = fs.copy()
            keys3 = [k for k in c['vars'] if k in g.variables.keys()]
            pre = {k: np.array(np.asarray(g.variables[k][...]), copy=True)
                   for k in keys3}
            outs = []
            for n in (0, 1):
                o3 = os.path.join(od3, 'out%d.bpch' % n)
                o = pncgen(g, o3, format='bpch', verbose=0)
                o.close()
                res.hook('writer.return')
                outs.append(open(o3, 'rb').read())
            for k in keys3:
                now = np.asarray(g.variables[k][...])
                if now.shape != pre[k].shape or \
                        now.tobytes() != pre[k].tobytes():
                    with np.errstate(all='ignore'):
                        r = float(np.nanmedian(now / pre[k]))
                    problems.append('writing changed the source variable %s '
                                    '(ratio after/before ~%.3g)' % (k, r))
                    break
            if outs[0] != outs[1]:
                problems.append('writing the same in-memory file twice gives '
                                'different bytes')
            dec = refbpch.decode(outs[0])
            ref = refbpch.decode(img)
            for bi, (a, b) in enumerate(zip(dec['blocks'], ref['blocks'])):
                if a['data'].shape != b['data'].shape or not np.allclose(
                        a['data'].astype('f8'), b['data'].astype('f8'),
                        rtol=8 * np.finfo('f4').eps, atol=0):
                    problems.append('write from an in-memory copy: raw '
                                    'values of block %d differ from the '
                                    'original' % bi)
                    break
        except Exception as e:
            res.note('copy-write-unavailable:%s' % type(e).__name__)
        # (5c) the conversion chain: the file (read with and without scaling)
        # saved as netCDF, opened as a plain netCDF file and written as bpch
        # again - the raw values of the original come back
        if spec['seed'] % 2 == 0 and not problems:
            od4 = os.path.join(d, 'out4')
            os.mkdir(od4)
            for label, src in (('scaled', fs), ('unscaled', fr)):
                try:
                    import PseudoNetCDF as pnc
                    pn = os.path.join(od4, label + '.nc')
                    o = src.save(pn, format='NETCDF4_CLASSIC', verbose=0)
                    o.close()
                    gnc = pnc.pncopen(pn, format='netcdf')
                    try:
                        o4 = os.path.join(od4, label + '.bpch')
                        o = pncgen(gnc, o4, format='bpch', verbose=0)
                        o.close()
                    finally:
                        gnc.close()
                    res.hook('writer.return')
                    dec = refbpch.decode(open(o4, 'rb').read())
                    ref = refbpch.decode(img)
                    if len(dec['blocks']) != len(ref['blocks']):
                        problems.append(
                            'bpch (%s) -> netCDF -> bpch: %d blocks, the '
                            'original has %d' % (label, len(dec['blocks']),
                                                 len(ref['blocks'])))
                        continue
                    for bi, (a, b) in enumerate(zip(dec['blocks'],
                                                    ref['blocks'])):
                        if a['data'].shape != b['data'].shape or \
                                not np.allclose(
                                    a['data'].astype('f8'),
                                    b['data'].astype('f8'),
                                    rtol=8 * np.finfo('f4').eps, atol=0):
                            with np.errstate(all='ignore'):
                                rr = float(np.nanmedian(
                                    a['data'].astype('f8') /
                                    b['data'].astype('f8'))) if \
                                    a['data'].shape == b['data'].shape \
                                    else float('nan')
                            problems.append(
                                'bpch (%s) -> netCDF -> bpch: raw values of '
                                'block %d (%s tracer %d) are off by a factor '
                                '~%.3g' % (label, bi, b['category'],
                                           b['tracerid'], rr))
                            break
                    res.facet('chain-via-netcdf:' + label)
                except Exception as e:
                    res.note('chain-via-netcdf-raised:%s:%s' % (
                        label, type(e).__name__))
        # (4) block-walking reader
        try:
            f2 = bpch2(path)
            res.hook('bpch2.return')
            p2 = []
            for k, raw in c['vars'].items():
                res.hook('oracle.compare')
                if k not in f2.variables.keys():
                    p2.append('bpch2: variable %s not exposed (%s)'
                              % (k, list(f2.variables.keys())[:5]))
                    continue
                if c['meta'][k].get('norow'):
                    continue
                a = np.asarray(f2.variables[k][...])
                b = np.asarray(fs.variables[k][...])
                if a.shape != b.shape or not np.allclose(
                        a.astype('f8'), b.astype('f8'),
                        rtol=4 * np.finfo('f4').eps, atol=0):
                    p2.append('bpch2: %s differs from bpch1 (shapes %s / %s)'
                              % (k, a.shape, b.shape))
            # the grid header both readers state is the one in the file
            for att, want in (('halfpolar', spec['halfpolar']),
                              ('center180', spec['center180']),
                              ('modelname', spec['modelname'])):
                for who, fx in (('bpch1', fs), ('bpch2', f2)):
                    got = getattr(fx, att, None)
                    if isinstance(got, bytes):
                        got = got.decode()
                    if isinstance(want, str):
                        ok = str(got).strip() == want.strip()
                    else:
                        ok = got is not None and int(got) == int(want)
                    if not ok:
                        p2.append('%s: grid header %s = %r, the file says '
                                  '%r' % (who, att, got, want))
            for who, fx in (('bpch1', fs), ('bpch2', f2)):
                mr = getattr(fx, 'modelres', None)
                if mr is None or [float(x) for x in np.asarray(mr)] != [
                        float(x) for x in spec['modelres']]:
                    p2.append('%s: grid header modelres = %r, the file says '
                              '%r' % (who, mr, spec['modelres']))
            # and the latitude cells follow from it in the same way
            for ck in ('latitude', 'latitude_bounds', 'longitude',
                       'longitude_bounds'):
                if ck in fs.variables.keys() and ck in f2.variables.keys():
                    a = np.asarray(f2.variables[ck][...], 'f8')
                    b = np.asarray(fs.variables[ck][...], 'f8')
                    if a.shape != b.shape or not np.allclose(a, b, rtol=0,
                                                             atol=1e-9):
                        p2.append('bpch2: %s differs from bpch1 (%s / %s)'
                                  % (ck, a.ravel()[:3], b.ravel()[:3]))
            problems += p2
            # the front end asked for its block-walking reader, unscaled
            from PseudoNetCDF.geoschemfiles import bpch
            f3 = bpch(path, noscale=True, reader='bpch2', **kw)
            res.hook('bpch.return')
            for k, raw in c['vars'].items():
                if k not in f3.variables.keys():
                    continue
                a = np.asarray(f3.variables[k][...])
                if a.shape != raw.shape or not np.allclose(
                        a.astype('f8'), raw.astype('f8'),
                        rtol=4 * np.finfo('f4').eps, atol=0):
                    problems.append("bpch(noscale=True, reader='bpch2'): %s "
                                    'is not the raw data' % k)
                    break
        except Exception as e:
            res.hook('bpch2.return')
            problems.append('bpch2 raised %r' % (e,))
    res.ev(dg, nblocks >= 2, facets)
    if problems:
        kind = 'bpch-law-broken'
        if all(p.startswith('bpch2') for p in problems):
            kind = 'bpch2-differs'
        res.viol(kind, '; '.join(problems[:5]), problems=problems[:10])


# ---------------------------------------------------------------------------
def run_truncation(spec, res, judge_prefix, classify, record_edges):
    """C14 for bpch images: every proper prefix of a reference image"""
    from PseudoNetCDF.geoschemfiles import bpch1
    from . import c14
    img = refbpch.encode(spec)
    c = refbpch.content(spec)
    with harness.casedir() as d:
        lay_tables(d, spec)
        kw = dict(tracerinfo=os.path.join(d, 'tracerinfo.dat'),
                  diaginfo=os.path.join(d, 'diaginfo.dat'), noscale=True)
        keys = list(c['vars']) + ['tau0', 'tau1']

        from PseudoNetCDF.geoschemfiles import bpch as bpchm, bpch2

        def read(path, reader='bpch1'):
            if reader == 'bpch1':
                f = bpch1(path, **kw)
            elif reader == 'bpch':
                # the public class: memory-mapped reader first, silent
                # fall-back to the block-walking reader when that raises
                f = bpchm(path, **kw)
            else:
                f = bpch2(path, noscale=True)
            out = {}
            for k in keys:
                try:
                    out[k] = np.array(np.asarray(f.variables[k][...]),
                                      copy=True)
                except harness.StepBudgetExceeded:
                    raise
                except Exception as e:
                    out[k] = e      # this variable cannot be read: fine
            return len(f.dimensions['time']), out
        full_path = os.path.join(d, 'full.bpch')
        with open(full_path, 'wb') as fh:
            fh.write(img)
        try:
            nt, fv = read(full_path)
            if any(isinstance(v, Exception) for v in fv.values()):
                raise RuntimeError('unreadable variable in the full image')
        except Exception as e:
            res.note('inconclusive:full-image-unreadable:bpch')
            res.notes.setdefault('full_image_error', repr(e))
            return
        edges = record_edges(img)
        per = 3 * len(spec['tracers'])
        step_edges = set(edges[1 + per * (i + 1)] for i in range(spec['nt']))
        hdr_end = edges[1]
        ppath = os.path.join(d, 'cut.bpch')
        seen = {}
        for cut in range(1, len(img)):
            if cut % c14.CHUNKS != spec.get('chunk', cut % c14.CHUNKS):
                continue
            with open(ppath, 'wb') as fh:
                fh.write(img[:cut])
            for reader in ('bpch1', 'bpch', 'bpch2'):
                problem = None
                fabricated = None
                try:
                    with harness.step_budget(c14.BUDGET):
                        gnt, got = read(ppath, reader)
                    outcome = 'returned'
                    complete = sum(1 for e_ in step_edges if e_ <= cut)
                    shorter = None
                    if cut in edges:
                        # bpch has no tracer or step count: a prefix that
                        # ends on a block boundary is byte-identical to a
                        # VALID file holding fewer blocks; the reader must
                        # expose (a leading part of) exactly those blocks
                        try:
                            dec = refbpch.decode(img[:cut])
                            shorter = {}
                            for b in dec['blocks']:
                                nm = [key for key, m in c['meta'].items()
                                      if m['category'] == b['category'] and
                                      m['tracerid'] == b['tracerid']][0]
                                shorter.setdefault(nm, []).append(b['data'])
                        except Exception:
                            shorter = None
                    if shorter is not None:
                        outcome = 'returned-valid-shorter-file'
                        nmax = max(len(v) for v in shorter.values())
                        if gnt > nmax:
                            problem = 'exposes %d steps, the (valid) ' \
                                'shorter file holds at most %d' % (gnt, nmax)
                        for k in c['vars']:
                            if problem or isinstance(got.get(k), Exception):
                                continue
                            a = got[k]
                            if k not in shorter:
                                if a.shape[0] != 0:
                                    problem = '%s exposed although the ' \
                                        'shorter file has no block of ' \
                                        'it' % k
                                continue
                            b = np.array(shorter[k][:a.shape[0]])
                            if a.shape[0] > len(shorter[k]) or \
                                    a.shape != b.shape or not np.array_equal(
                                        a.astype('f4'), b):
                                problem = '%s differs from the blocks of ' \
                                    'the (valid) shorter file' % k
                    elif gnt > complete:
                        problem = 'exposes %d time steps but the prefix ' \
                            'holds only %d complete ones (tau0 %s)' % (
                                gnt, complete,
                                None if isinstance(got.get('tau0'), Exception)
                                else np.asarray(got.get('tau0')).tolist())
                        # whatever is exposed must at least be GENUINE data
                        # of the full file (never zero-filled or shifted)
                        for k in keys:
                            a = got[k]
                            if isinstance(a, Exception):
                                continue
                            n = a.shape[0]
                            if n > nt or a.shape[1:] != fv[k].shape[1:] or \
                                    not np.array_equal(
                                        a.astype(fv[k].dtype), fv[k][:n]):
                                fabricated = '%s holds values that are ' \
                                    'not those of the full file' % k
                                break
                    else:
                        for k in keys:
                            if isinstance(got[k], Exception):
                                continue
                            a, b = got[k], fv[k][:gnt]
                            if a.shape != b.shape or not np.array_equal(
                                    a.astype(b.dtype), b):
                                problem = '%s of the truncated file differs ' \
                                    'from the full file (%d of %d steps ' \
                                    'exposed, shapes %s / %s)' % (
                                        k, gnt, nt, a.shape, b.shape)
                                break
                except harness.StepBudgetExceeded as e:
                    outcome, problem = 'hang', 'does not terminate: %s' % e
                except Exception as e:
                    outcome = 'raised'
                    if os.environ.get('VERIF_DEBUG'):
                        res.note('dbg:%s:%s:%s' % (reader, type(e).__name__,
                                                   str(e)[:60]))
                res.hook('prefix.open')
                res.hook('oracle.compare')
                cls = classify(cut, edges, step_edges, hdr_end)
                res.ev(digest([spec, cut, reader]), True,
                       ['fmt:' + reader, 'cut:' + cls, 'outcome:' + outcome])
                if fabricated:
                    res.viol('fabricated-values:%s:%s' % (reader, cls),
                             '%s on a bpch image of %d bytes cut at byte %d '
                             '(%s): %s' % (reader, len(img), cut, cls,
                                           fabricated), fmt=reader, cut=cut)
                if problem:
                    key = (reader, outcome, cls)
                    seen[key] = seen.get(key, 0) + 1
                    if seen[key] <= 2:
                        res.viol('%s:%s:%s' % (
                            'no-termination' if outcome == 'hang'
                            else 'silent-misread', reader, cls),
                            '%s on a bpch image of %d bytes (%d steps x %d '
                            'tracers) cut at byte %d (%s): %s' % (
                                reader, len(img), spec['nt'],
                                len(spec['tracers']), cut, cls, problem),
                            fmt=reader, cut=cut, cutclass=cls,
                            outcome=outcome, nt=spec['nt'],
                            ntracers=len(spec['tracers']),
                            complete_steps=sum(1 for e_ in step_edges
                                               if e_ <= cut))
