"""C12 -- decoded times are the true instants for every supported encoding.

Monitor: return of getTimes (all branches, bounds on/off), date2num,
time2idx, add_time_variable(s); oracles: cftime (independent CF-time
implementation) and integer YYYYJJJ/HHMMSS calendar arithmetic."""
import datetime

import numpy as np

from .. import gen_ioapi, harness
from ..cli import digest

PROP = 'C12'
LEVEL = 'exploration'
RULE = ('cf: reference dates 1900-2100 in every spelling the parser lists '
        '(with/without time, Z, UTC, numeric offsets) x units {days, hours, '
        'minutes, seconds} x calendars {standard, gregorian, '
        'proleptic_gregorian, noleap, 365_day, all_leap, 366_day, none} x '
        'offsets from 0 to centuries incl. binary fractions, bounds on/off '
        '(explicit time_bounds and derived), float64 and int32 time '
        'variables; ioapi: start dates over leap '
        'days/year ends x steps 1 s .. 24 h, decoded through TFLAG, through '
        'SDATE/STIME/TSTEP only, and through the synthesised CF time '
        'variable (built from files with and without a TFLAG variable); '
        'tau: GEOS-Chem tau0/tau1 hours since 1985 in memory and through '
        'both bpch readers; inverse laws date2num(getTimes) and time2idx(getTimes). '
        'thorough adds the exhaustive sweep: every day of 1899-2101 x 4 '
        'units (standard calendar). only decodings that RETURN are judged. '
        'evaluations = decode calls; distinct = digest of the spec.')
RULE += (' Also: flags at uneven spacing (index-list selection) decoded with bounds; a re-dated file (TFLAG edited in place) synthesised a second time; IOAPI files opened from disk, bounds on.')
RULE += (' A share of the gridded files is the IOAPI-class object the CAMx gridded READER (uamiv) returns for an image written by the independent codec (whole-hour steps up to 168 h, ETFLAG present, header completed by the class).')
RULE += (' The module-level decoders coordutil.gettimes / gettimebnds (used by the dump with time strings, the evaluation tool and the ARL writer) are judged on the same files: CF time in the standard calendars (to the millisecond), IOAPI flags with TSTEP-defined upper edges, tau0/tau1.')
RULE += (" Half of the IOAPI files opened from disk are written here with netCDF4 directly the way the Models-3 I/O API library writes them (netCDF classic 64-bit offset, int32 header integers, float64 grid reals, float32 VGLVLS, TFLAG first, TSTEP the record dimension), independent of the library's writers.")
RULE += (' CF cases in memory then have their time values re-written in place (shifted by one unit, or reversed and shifted) and are decoded again on the same object against cftime.')
ASSUMPTIONS = [
    'cftime 1.6.5 is an independent, correct implementation of CF time for '
    'the calendars used (years 1900-2100, so Julian/Gregorian mixing is not '
    'exercised); the IOAPI oracle is integer arithmetic written in the '
    'harness',
    'offsets are binary fractions so that microseconds are exact; instants '
    'are compared exactly after conversion to UTC',
    'a reference-date spelling that cftime cannot parse has no oracle and is '
    'skipped',
]
HOOKS = ['getTimes.return', 'oracle.cftime', 'oracle.integer-calendar',
         'date2num.return', 'time2idx.return', 'add_time_variable.return',
         'gettimes.return']
MIN_DISTINCT = {'quick': 1500, 'thorough': 20000}
N = {'quick': 4000, 'thorough': 60000}
YEARS = list(range(1899, 2102))
UNITS = ['days', 'hours', 'minutes', 'seconds']
CALS = ['standard', 'gregorian', 'proleptic_gregorian', 'noleap', '365_day',
        'all_leap', '366_day', None]
EXHAUSTIVE = {}


def ncases(tier):
    n = N[tier]
    if tier == 'thorough':
        n += len(YEARS) * len(UNITS)
    return n


FORMS = [
    # (format, uses H, uses M, uses S, tz offset minutes)
    ('%04d-%02d-%02d %02d:%02d:%02d UTC', 1, 1, 1, 0),
    ('%04d-%02d-%02d %02d:%02d UTC', 1, 1, 0, 0),
    ('%04d-%02d-%02d %02d UTC', 1, 0, 0, 0),
    ('%04d-%02d-%02d %02d:%02d:%02dZ', 1, 1, 1, 0),
    ('%04d-%02d-%02d %02d:%02dZ', 1, 1, 0, 0),
    ('%04d-%02d-%02d %02dZ', 1, 0, 0, 0),
    ('%04d-%02d-%02d %02d:%02d:%02d+0000', 1, 1, 1, 0),
    ('%04d-%02d-%02d %02d:%02d:%02d', 1, 1, 1, 0),
    ('%04d-%02d-%02d %02d:%02d', 1, 1, 0, 0),
    ('%04d-%02d-%02d %02d', 1, 0, 0, 0),
    ('%04d-%02d-%02d', 0, 0, 0, 0),
    ('%04d-%02d-%02d %02d:%02d:%02d', 1, 1, 1, 0),
    ('%04d-%02d-%02d', 0, 0, 0, 0),
    ('%04d-%02d-%02d %02d:%02d:%02d-0500', 1, 1, 1, -300),
    ('%04d-%02d-%02d %02d:%02d:%02d+01:00', 1, 1, 1, 60),
]


def spell(form, y, mo, d, H, M, S):
    """-> (spelled reference, canonical UTC reference 'Y-M-D h:m:s')"""
    fmt, uh, um, us, tz = FORMS[form]
    H, M, S = H * uh, M * um, S * us
    args = (y, mo, d) + ((H,) if uh else ()) + ((M,) if um else ()) + \
        ((S,) if us else ())
    text = fmt % args
    # canonical UTC instant by integer arithmetic
    jjj = sum([31, 29 if gen_ioapi.isleap(y) else 28, 31, 30, 31, 30, 31, 31,
               30, 31, 30, 31][:mo - 1]) + d
    dd, tt = gen_ioapi.jd_add(y * 1000 + jjj, H * 10000 + M * 100 + S,
                              -tz * 60)
    Y, MO, D, h, m, sec = gen_ioapi.jd_tuple(dd, tt)
    return text, '%04d-%02d-%02d %02d:%02d:%02d' % (Y, MO, D, h, m, sec)


def gen(rng, idx, tier, seed):
    if idx >= N[tier]:
        j = idx - N[tier]
        y, u = divmod(j, len(UNITS))
        return {'mode': 'sweep', 'year': YEARS[y], 'unit': UNITS[u]}
    m = idx % 6
    if m == 5:
        # GEOS-Chem convention: tau0/tau1 hours since 1985-01-01 00 UTC
        nt = int(rng.integers(1, 5))
        return {'mode': 'tau', 'nt': nt,
                'tau0': float(rng.choice([0, 8760, 175344, 227904,
                                          int(rng.integers(0, 400000))])),
                'dtau': float(rng.choice([1, 3, 24, 744])),
                'via': str(rng.choice(['memory', 'bpch1', 'bpch2'])),
                'seed': int(rng.integers(1 << 30)),
                'bounds': bool(rng.random() < 0.5)}
    if m in (0, 1, 2):
        y = int(rng.integers(1900, 2101))
        mo = int(rng.integers(1, 13))
        d = int(rng.integers(1, 29))
        if rng.random() < 0.3:
            mo, d = [(1, 1), (12, 31), (2, 28), (3, 1), (1, 1)][
                int(rng.integers(5))]
        H, M, S = (0, 0, 0) if rng.random() < 0.5 else (
            int(rng.integers(24)), int(rng.choice([0, 30, 15])),
            int(rng.choice([0, 0, 30])))
        unit = str(rng.choice(UNITS))
        cal = CALS[int(rng.integers(len(CALS)))]
        n = int(rng.integers(1, 6))
        big = {'days': 80000, 'hours': 2000000, 'minutes': 5e7,
               'seconds': 3e9}[unit]
        scale = float(rng.choice([1, 1, 10, 1000, big / 10, big]))
        start = float(np.floor(rng.uniform(0, scale) * 4) / 4)
        step = float(rng.choice([0.25, 0.5, 1, 1, 3, 6, 24, 365, 1461]))
        vals = [start + i * step for i in range(n)]
        dtype = 'd'
        if rng.random() < 0.3 and max(vals) < 2 ** 31 - 1:
            # integer-typed time variable (e.g. int32 hours since 1900)
            dtype = 'i'
            step = max(1.0, float(int(step)))
            vals = [float(int(start)) + i * step for i in range(n)]
        form = int(rng.integers(len(FORMS)))
        ref, canon = spell(form, y, mo, d, H, M, S)
        return {'mode': 'cf', 'ref': ref, 'canon': canon, 'form': form,
                'unit': unit, 'calendar': cal, 'values': vals,
                'dtype': dtype, 'disk': bool(idx % 7 == 1),
                'bounds': str(rng.choice(['off', 'off', 'derived',
                                          'explicit']))}
    # one file in seven is what the gridded CAMx reader returns for an image
    # of the independent codec (its flags come from the binary time records)
    fs = gen_ioapi.gen_spec(rng, via='uamiv' if idx % 7 == 5
                            else 'from_arrays')
    if rng.random() < 0.4:
        fs['tstep'] = int(rng.choice(
            [10000, 60000, 240000, int(rng.integers(1, 24)) * 10000,
             250000, 480000, 1680000] if fs['via'] == 'uamiv' else
            [1, 100, 1500, 10000, 60000, 240000,
             int(rng.integers(1, 24)) * 10000,
             250000, 480000, 1003015, 1680000, 7200000]))
    return {'mode': ['tflag', 'synth'][m - 3], 'file': fs,
            'drop_tflag': bool(rng.random() < 0.3),
            'disk': bool(rng.random() < 0.3),
            'bounds': bool(rng.random() < 0.5)}


def as_utc_tuple(t):
    if getattr(t, 'tzinfo', None) is not None:
        t = t.astimezone(datetime.timezone.utc)
    return (t.year, t.month, t.day, t.hour, t.minute, t.second,
            t.microsecond)


def cf_tuple(t):
    return (t.year, t.month, t.day, t.hour, t.minute, t.second,
            t.microsecond)


def run_cf(spec, res):
    with harness.casedir() as d, harness.handles() as h:
        run_cf_in(spec, res, d, h)


def run_cf_in(spec, res, d, h):
    import cftime
    import PseudoNetCDF as pnc
    units = '%s since %s' % (spec['unit'], spec['ref'])
    cal = spec['calendar']
    vals = np.array(spec['values'], 'f8')
    n = vals.size
    f = pnc.PseudoNetCDFFile()
    f.createDimension('time', n)
    tv = f.createVariable('time', spec.get('dtype', 'd'), ('time',))
    tv.units = units
    if cal is not None:
        tv.calendar = cal
    tv[:] = vals
    tovals = vals
    bounds = spec['bounds'] != 'off'
    if spec['bounds'] == 'explicit':
        f.createDimension('nv', 2)
        step = (vals[1] - vals[0]) if n > 1 else 1.0
        if spec.get('dtype', 'd') == 'i':
            step = step * 4     # integral edges
        bv = f.createVariable('time_bounds', spec.get('dtype', 'd'),
                              ('time', 'nv'))
        bv[:, 0] = vals - step / 4
        bv[:, 1] = np.append((vals - step / 4)[1:], vals[-1] + step / 2)
        tovals = np.append(bv[:, 0], bv[-1, 1])
    elif spec['bounds'] == 'derived':
        if n < 2:
            bounds = False
        else:
            dt = np.diff(vals).mean()
            tovals = np.append(vals - dt / 2, vals[-1] + dt / 2)
    if spec.get('disk'):
        # the file saved and opened again from disk
        g = harness.to_disk(f, d, h, res=res)
        if g is not None:
            f = g
    facets = ['cf', 'unit:' + spec['unit'], 'cal:%s' % cal,
              'source:disk' if spec.get('disk') else 'source:memory',
              'dtype:' + spec.get('dtype', 'd'),
              'bounds:' + spec['bounds'], 'form:%d' % spec['form']]
    dg = digest(spec)
    try:
        # the oracle decodes against the canonical UTC spelling of the SAME
        # reference instant (the harness knows which instant it spelled)
        exp = cftime.num2date(np.asarray(tovals, 'f8'),
                              '%s since %s' % (spec['unit'], spec['canon']),
                              cal or 'standard')
        exp = [cf_tuple(t) for t in np.atleast_1d(exp)]
        res.hook('oracle.cftime')
    except Exception:
        res.note('no-oracle:cftime-rejects')
        res.ev(dg, False, facets + ['no-oracle'])
        return
    try:
        got = f.getTimes(bounds=bounds)
    except Exception as e:
        res.hook('getTimes.return')
        res.ev(dg, False, facets + ['raised'])
        res.note('getTimes-raised:%s' % type(e).__name__)
        return
    res.hook('getTimes.return')
    res.ev(dg, True, facets)
    try:
        gt = [as_utc_tuple(t) for t in np.atleast_1d(got)]
    except Exception as e:
        res.viol('undecodable-return', 'getTimes returned %r (%r)'
                 % (got, e), calendar=cal)
        return
    if gt != exp:
        j = next((i for i, (a, b) in enumerate(zip(gt, exp)) if a != b),
                 min(len(gt), len(exp)))
        res.viol('wrong-instant:cf:%s' % (
            'standard' if cal in (None, 'standard', 'gregorian',
                                  'proleptic_gregorian') else 'nonstandard'),
            'units %r calendar %r bounds=%s: value %r decodes to %s, '
            'cftime says %s (%d values, %d returned)'
            % (units, cal, spec['bounds'],
               tovals[j] if j < len(tovals) else None,
               gt[j] if j < len(gt) else None,
               exp[j] if j < len(exp) else None, len(exp), len(gt)),
            calendar=cal, unit=spec['unit'], bounds=spec['bounds'])
        return
    if cal in (None, 'standard', 'gregorian', 'proleptic_gregorian') and \
            all(1583 <= t[0] <= 9999 for t in exp):
        # the same instants asked for as numpy datetime64 (the datetype
        # keyword): numpy has no time zones, the values are UTC
        try:
            g64 = np.atleast_1d(f.getTimes(datetype='datetime64[us]',
                                           bounds=bounds))
            res.hook('getTimes.return')
            w64 = np.array([np.datetime64(datetime.datetime(*t), 'us')
                            for t in exp])
            if g64.shape != w64.shape or not (
                    g64.astype('datetime64[us]') == w64).all():
                j = int(np.argmax(g64.astype('datetime64[us]') != w64)) \
                    if g64.shape == w64.shape else 0
                res.viol('wrong-instant:cf:standard',
                         "units %r: getTimes(datetype='datetime64[us]') "
                         'gives %s for value %r, the instant is %s (UTC)'
                         % (units, g64[j] if j < len(g64) else None,
                            tovals[j] if j < len(tovals) else None, w64[j]),
                         calendar=cal, unit=spec['unit'],
                         bounds=spec['bounds'])
                return
        except Exception as e:
            res.note('getTimes-datetype-raised:%s' % type(e).__name__)
    if cal in (None, 'standard', 'gregorian', 'proleptic_gregorian') and \
            not spec.get('disk'):
        # the module-level decoder (used by the dump, the evaluation and the
        # ARL writer); it knows the standard calendar only
        try:
            from PseudoNetCDF.coordutil import gettimes
            g2 = [as_utc_tuple(t) for t in np.atleast_1d(gettimes(f))]
            res.hook('gettimes.return')
            want = [cf_tuple(t) for t in np.atleast_1d(cftime.num2date(
                np.asarray(vals, 'f8'), '%s since %s' % (
                    spec['unit'], spec['canon']), cal or 'standard'))]

            def _us(t):
                return (datetime.datetime(*t[:6]) - datetime.datetime(
                    1, 1, 1)).total_seconds() * 1e6 + t[6]
            worst = max([abs(_us(a) - _us(b)) for a, b in zip(g2, want)] +
                        [0.0])
            if len(g2) != len(want) or worst > 1000:
                j = next((i for i, (a, b) in enumerate(zip(g2, want))
                          if abs(_us(a) - _us(b)) > 1000), 0)
                res.viol('wrong-instant:gettimes:cf',
                         'units %r: coordutil.gettimes decodes value %r to '
                         '%s, cftime says %s' % (units, vals[j], g2[j]
                                                 if j < len(g2) else None,
                                                 want[j]), calendar=cal,
                         unit=spec['unit'])
        except Exception as e:
            res.note('gettimes-raised:%s' % type(e).__name__)
    if bounds:
        # decoding is a query: asking for the edges must not move the
        # instants a later call decodes
        try:
            again = [as_utc_tuple(t) for t in np.atleast_1d(f.getTimes())]
            res.hook('getTimes.return')
            want = [cf_tuple(t) for t in np.atleast_1d(cftime.num2date(
                np.asarray(vals, 'f8'), '%s since %s' % (
                    spec['unit'], spec['canon']), cal or 'standard'))]
            if again != want:
                j = next((i for i, (a, b) in enumerate(zip(again, want))
                          if a != b), 0)
                res.viol('wrong-instant:cf:after-bounds' if cal in (
                    None, 'standard', 'gregorian', 'proleptic_gregorian')
                    else 'wrong-instant:cf:nonstandard',
                         'units %r: after getTimes(bounds=True), getTimes() '
                         'decodes value %r to %s, cftime says %s'
                         % (units, vals[j], again[j] if j < len(again)
                            else None, want[j]), calendar=cal)
        except Exception as e:
            res.note('getTimes-raised:%s' % type(e).__name__)
        return
    # inverse laws (judged only when decoding is right)
    try:
        nums = np.asarray(f.date2num(got), 'f8')
        res.hook('date2num.return')
        if nums.shape != vals.shape or np.abs(nums - vals).max() > 1e-6 * \
                max(1.0, np.abs(vals).max() * 1e-9):
            res.viol('date2num-not-inverse',
                     'units %r calendar %r: date2num(getTimes()) = %s, '
                     'stored %s' % (units, cal, nums.tolist(), vals.tolist()),
                     calendar=cal)
    except Exception as e:
        res.hook('date2num.return')
        res.note('date2num-raised:%s' % type(e).__name__)
    if n >= 2 and np.all(np.diff(vals) > 0):
        try:
            idx = np.ma.array(f.time2idx(got, bounds='ignore'))
            res.hook('time2idx.return')
            if np.ma.getmaskarray(idx).any() or not np.array_equal(
                    np.ma.getdata(idx), np.arange(n)):
                res.viol('time2idx-not-identity',
                         'units %r calendar %r: time2idx(getTimes()) = %s'
                         % (units, cal, idx.tolist()), calendar=cal)
        except Exception as e:
            res.hook('time2idx.return')
            res.note('time2idx-raised:%s' % type(e).__name__)
    if not spec.get('disk'):
        # the stored values re-written in place (a template re-dated): the
        # next decode is of the values stored NOW
        try:
            vals2 = vals[::-1] + 1 if spec['form'] % 2 else vals + 1
            # (decode, edit, decode: the decode before the edit is the same
            # call as the one after it)
            f.getTimes()
            f.variables['time'][:] = vals2
            want = [cf_tuple(t) for t in np.atleast_1d(cftime.num2date(
                np.asarray(vals2, 'f8'), '%s since %s' % (
                    spec['unit'], spec['canon']), cal or 'standard'))]
        except Exception:
            res.note('no-oracle:redated')
            return
        try:
            again = [as_utc_tuple(t) for t in np.atleast_1d(f.getTimes())]
            res.hook('getTimes.return')
        except Exception as e:
            res.note('getTimes-raised:%s' % type(e).__name__)
            return
        res.facet('cf:redated-in-place')
        if again != want:
            j = next((i for i, (a, b) in enumerate(zip(again, want))
                      if a != b), 0)
            res.viol('wrong-instant:cf:%s' % (
                'standard' if cal in (None, 'standard', 'gregorian',
                                      'proleptic_gregorian')
                else 'nonstandard'),
                'units %r calendar %r: after the time values were '
                're-written in place, value %r decodes to %s, cftime says '
                '%s' % (units, cal, vals2[j], again[j] if j < len(again)
                        else None, want[j]), calendar=cal,
                unit=spec['unit'], bounds='redated')


def run_ioapi(spec, res):
    with harness.casedir() as d, harness.handles() as h:
        run_ioapi_in(spec, res, d, h)


def run_ioapi_in(spec, res, d, h):
    import cftime
    from PseudoNetCDF.conventions.ioapi._ioapi import add_time_variables
    fs = spec['file']
    f = gen_ioapi.build(fs)
    if fs.get('via') == 'uamiv':
        res.facet('source:camx-reader')
    if spec.get('disk') and spec['mode'] == 'tflag' and \
            not spec['drop_tflag']:
        # the IOAPI file saved and opened again from disk
        g = gen_ioapi.open_m3io(fs, d, h) if fs['seed'] % 2 == 0 else None
        if g is not None:
            # the file as the I/O API library itself writes it
            res.facet('ioapi-source:disk-m3io')
        else:
            g = harness.to_disk(f, d, h, res=res, fmt='ioapi')
        if g is not None:
            f = g
            res.facet('ioapi-source:disk')
    exp = gen_ioapi.expected_times(fs)
    res.hook('oracle.integer-calendar')
    dtsec = gen_ioapi.tstep_seconds(fs['tstep'])
    facets = ['ioapi:' + spec['mode'], 'tstep:%d' % fs['tstep']]
    dg = digest(spec)
    problems = []
    # the time flags the library wrote must be the integer-calendar flags
    tf = np.asarray(f.variables['TFLAG'][...])
    for i in range(fs['nt']):
        d, t = gen_ioapi.jd_add(fs['sdate'], fs['stime'], i * dtsec)
        if not (tf[i, :, 0] == d).all() or not (tf[i, :, 1] == t).all():
            problems.append('TFLAG[%d] = %s, integer calendar says (%d, %d)'
                            % (i, tf[i, 0].tolist(), d, t))
            break
    if spec['drop_tflag'] and fs.get('via') != 'uamiv':
        # (a reader's file always has its time flags)
        del f.variables['TFLAG']
        facets.append('no-tflag-variable')
    try:
        got = f.getTimes()
        res.hook('getTimes.return')
        gt = [as_utc_tuple(t)[:6] for t in got]
        if gt != exp:
            j = next((i for i, (a, b) in enumerate(zip(gt, exp)) if a != b),
                     min(len(gt), len(exp)))
            problems.append('getTimes()[%d] = %s, expected %s (SDATE %d '
                            'STIME %d TSTEP %d)' % (
                                j, gt[j] if j < len(gt) else None,
                                exp[j] if j < len(exp) else None,
                                fs['sdate'], fs['stime'], fs['tstep']))
        if spec['bounds']:
            gb = [as_utc_tuple(t)[:6] for t in f.getTimes(bounds=True)]
            eb = gen_ioapi.expected_times(fs, n=fs['nt'] + 1)
            res.hook('getTimes.return')
            if gb != eb:
                problems.append('getTimes(bounds=True) = %s..., expected '
                                '%s...' % (gb[-2:], eb[-2:]))
    except Exception as e:
        res.hook('getTimes.return')
        res.note('getTimes-raised:%s' % type(e).__name__)
        res.ev(dg, False, facets + ['raised'])
        return
    if 'TFLAG' in f.variables and not problems:
        # the module-level decoders (dump with time strings, evaluation,
        # ARL writer) on the same flags
        try:
            from PseudoNetCDF.coordutil import gettimes, gettimebnds
            g2 = [as_utc_tuple(t)[:6] for t in gettimes(f)]
            res.hook('gettimes.return')
            if g2 != exp:
                j = next((i for i, (a, b) in enumerate(zip(g2, exp))
                          if a != b), 0)
                problems.append('coordutil.gettimes()[%d] = %s, the flags '
                                'say %s' % (j, g2[j] if j < len(g2) else None,
                                            exp[j]))
            b2 = gettimebnds(f)
            res.hook('gettimes.return')
            lo = [as_utc_tuple(t)[:6] for t in b2[:, 0]]
            hi = [as_utc_tuple(t)[:6] for t in b2[:, 1]]
            ehi = [gen_ioapi.jd_tuple(*gen_ioapi.jd_add(
                fs['sdate'], fs['stime'], (i + 1) * dtsec))
                for i in range(fs['nt'])]
            if lo != exp or hi != ehi:
                problems.append('coordutil.gettimebnds()[0] = %s .. %s, the '
                                'flags and TSTEP say %s .. %s'
                                % (lo[:1], hi[:1], exp[:1], ehi[:1]))
        except Exception as e:
            res.note('gettimes-raised:%s' % type(e).__name__)
    if spec['mode'] == 'synth':
        try:
            add_time_variables(f)
            res.hook('add_time_variable.return')
            tv = f.variables['time']
            dec = cftime.num2date(np.asarray(tv[...], 'f8'), tv.units,
                                  getattr(tv, 'calendar', 'standard'))
            res.hook('oracle.cftime')
            st = [cf_tuple(t)[:6] for t in np.atleast_1d(dec)]
            if st != exp:
                problems.append('synthesised CF time decodes (cftime) to %s, '
                                'flags say %s' % (st[:3], exp[:3]))
            lt = [as_utc_tuple(t)[:6] for t in f.getTimes()]
            res.hook('getTimes.return')
            if lt != exp:
                problems.append('getTimes() through the synthesised time '
                                'variable = %s, flags say %s' % (lt[:3],
                                                                 exp[:3]))
            tb = f.variables['time_bounds']
            decb = cftime.num2date(np.asarray(tb[...], 'f8'), tb.units,
                                   'standard')
            eb = gen_ioapi.expected_times(fs, n=fs['nt'] + 1)
            lo = [cf_tuple(t)[:6] for t in decb[:, 0]]
            hi = [cf_tuple(t)[:6] for t in decb[:, 1]]
            if lo != eb[:-1] or hi != eb[1:]:
                problems.append('synthesised time_bounds decode to %s/%s, '
                                'expected %s/%s' % (lo[:2], hi[:2], eb[:2],
                                                    eb[1:3]))
            # the file is re-dated (same number of steps) and the CF
            # coordinates are synthesised again: they must follow
            if not problems and fs['tstep'] < 240000 * 30:
                nd, ntm = gen_ioapi.jd_add(fs['sdate'], fs['stime'],
                                           86400 * 37 + 3600)
                fs2 = dict(fs, sdate=nd, stime=ntm)
                f.SDATE, f.STIME = nd, ntm
                if 'TFLAG' in f.variables:
                    tfv = f.variables['TFLAG']
                    for i in range(fs['nt']):
                        di, ti = gen_ioapi.jd_add(nd, ntm, i * dtsec)
                        tfv[i, :, 0] = di
                        tfv[i, :, 1] = ti
                add_time_variables(f)
                res.hook('add_time_variable.return')
                exp2 = gen_ioapi.expected_times(fs2)
                lt2 = [as_utc_tuple(t)[:6] for t in f.getTimes()]
                res.hook('getTimes.return')
                if lt2 != exp2:
                    problems.append('after re-dating the file and '
                                    'synthesising the CF time again, '
                                    'getTimes() = %s, the flags say %s'
                                    % (lt2[:3], exp2[:3]))
        except Exception as e:
            res.hook('add_time_variable.return')
            problems.append('add_time_variables raised %r' % (e,))
    if spec['mode'] == 'tflag' and not spec['drop_tflag'] and \
            fs['nt'] >= 3 and not problems and not spec.get('disk'):
        # unevenly spaced flags (an index-list selection): the edges are the
        # decoded flags plus one closing edge, not a regular sequence
        try:
            keep = [0, 1] + [fs['nt'] - 1] if fs['nt'] > 3 else [0, 2]
            g = f.sliceDimensions(TSTEP=keep)
            gb = [as_utc_tuple(t)[:6] for t in g.getTimes(bounds=True)]
            res.hook('getTimes.return')
            want = [exp[i] for i in keep]
            if gb[:-1] != want:
                problems.append('steps %s selected: getTimes(bounds=True)'
                                '[:-1] = %s, the selected flags say %s'
                                % (keep, gb[:-1][:4], want[:4]))
        except Exception as e:
            res.note('irregular-selection-raised:%s' % type(e).__name__)
    res.ev(dg, True, facets)
    if problems:
        res.viol('wrong-instant:ioapi:' + spec['mode'],
                 '; '.join(problems[:4]), tstep=fs['tstep'],
                 sdate=fs['sdate'], stime=fs['stime'])


def run_sweep(spec, res):
    import cftime
    import PseudoNetCDF as pnc
    y, unit = spec['year'], spec['unit']
    ndays = 366 if gen_ioapi.isleap(y) else 365
    mult = {'days': 1, 'hours': 24, 'minutes': 1440, 'seconds': 86400}[unit]
    vals = np.arange(ndays + 1, dtype='f8') * mult
    units = '%s since %04d-01-01 00:00:00' % (unit, y)
    f = pnc.PseudoNetCDFFile()
    f.createDimension('time', vals.size)
    tv = f.createVariable('time', 'd', ('time',))
    tv.units = units
    tv[:] = vals
    got = [as_utc_tuple(t)[:6] for t in f.getTimes()]
    res.hook('getTimes.return')
    exp = [gen_ioapi.jd_tuple(*gen_ioapi.jd_add(y * 1000 + 1, 0, i * 86400))
           for i in range(ndays + 1)]
    res.hook('oracle.integer-calendar')
    second = [cf_tuple(t)[:6] for t in cftime.num2date(vals, units,
                                                       'standard')]
    res.hook('oracle.cftime')
    if second != exp:
        res.note('inconclusive:oracles-disagree')
        return
    res.ev(digest(spec), True, 'sweep', n=len(exp))
    if got != exp:
        j = next(i for i, (a, b) in enumerate(zip(got, exp)) if a != b)
        res.viol('wrong-instant:cf:standard',
                 'sweep %s: value %r decodes to %s, expected %s'
                 % (units, vals[j], got[j], exp[j]), calendar='standard')


def run_tau(spec, res):
    import os
    import PseudoNetCDF as pnc
    from .. import harness, refbpch
    nt = spec['nt']
    tau0 = [spec['tau0'] + i * spec['dtau'] for i in range(nt)]
    tau1 = [t + spec['dtau'] for t in tau0]
    base = datetime.datetime(1985, 1, 1)
    want = [tuple((base + datetime.timedelta(hours=h)).timetuple()[:6])
            for h in tau0]
    wantb = want + [tuple((base + datetime.timedelta(
        hours=tau1[-1])).timetuple()[:6])]
    res.hook('oracle.integer-calendar')
    facets = ['tau', 'via:' + spec['via']]
    dg = digest(spec)
    problems = []
    with harness.casedir() as d:
        try:
            if spec['via'] == 'memory':
                f = pnc.PseudoNetCDFFile()
                f.createDimension('t', nt)
                for k, vals in (('tau0', tau0), ('tau1', tau1)):
                    v = f.createVariable(k, 'd', ('t',))
                    v.units = 'hours since 1985-01-01 00:00:00 UTC'
                    v[:] = vals
            else:
                from PseudoNetCDF.geoschemfiles import bpch1, bpch2
                rng = np.random.default_rng([spec['seed'], 71])
                bs = refbpch.gen_spec(rng, small=True)
                bs.update(nt=nt, tau0=spec['tau0'], dtau=spec['dtau'])
                # (this mode's oracle is for consecutive intervals)
                bs.pop('same_start', None)
                path = os.path.join(d, 'in.bpch')
                with open(path, 'wb') as fh:
                    fh.write(refbpch.encode(bs))
                with open(os.path.join(d, 'tracerinfo.dat'), 'w') as fh:
                    fh.write(refbpch.tracerinfo_text(bs))
                with open(os.path.join(d, 'diaginfo.dat'), 'w') as fh:
                    fh.write(refbpch.diaginfo_text(bs))
                f = bpch1(path) if spec['via'] == 'bpch1' else bpch2(path)
                # the readers expose a `time` coordinate of their own
                # (bpch1: middle of the averaging interval, bpch2: its
                # start); getTimes owes the instants THAT variable states,
                # which must lie inside the encoded interval
                tv = np.asarray(f.variables['time'][...], 'f8')
                if tv.shape != (nt,) or (tv < np.array(tau0)).any() or (
                        tv > np.array(tau1)).any():
                    problems.append('time variable %s outside the encoded '
                                    'intervals %s..%s' % (tv.tolist()[:3],
                                                          tau0[:3], tau1[:3]))
                want = [tuple((base + datetime.timedelta(
                    hours=float(h))).timetuple()[:6]) for h in tv]
            got = [as_utc_tuple(t)[:6] for t in f.getTimes()]
            res.hook('getTimes.return')
            if got != want:
                problems.append('getTimes() = %s, tau0 %s hours since '
                                '1985-01-01 are %s' % (got[:3], tau0[:3],
                                                       want[:3]))
            if spec['bounds']:
                gb = [as_utc_tuple(t)[:6] for t in f.getTimes(bounds=True)]
                res.hook('getTimes.return')
                if gb != wantb:
                    problems.append('getTimes(bounds=True) = %s, tau0/tau1 '
                                    'say %s' % (gb[-2:], wantb[-2:]))
            try:
                # the module-level decoders on the same file
                from PseudoNetCDF.coordutil import gettimes, gettimebnds
                g2 = [as_utc_tuple(t)[:6] for t in gettimes(f)]
                res.hook('gettimes.return')
                if g2 != want:
                    problems.append('coordutil.gettimes() = %s, expected %s'
                                    % (g2[:3], want[:3]))
                if spec['via'] == 'memory':
                    b2 = gettimebnds(f)
                    res.hook('gettimes.return')
                    lo = [as_utc_tuple(t)[:6] for t in b2[:, 0]]
                    hi = [as_utc_tuple(t)[:6] for t in b2[:, 1]]
                    whi = [tuple((base + datetime.timedelta(
                        hours=h)).timetuple()[:6]) for h in tau1]
                    if lo != want or hi != whi:
                        problems.append('coordutil.gettimebnds() = %s..%s, '
                                        'tau0/tau1 say %s..%s'
                                        % (lo[:2], hi[:2], want[:2], whi[:2]))
            except Exception as e:
                res.note('gettimes-raised:%s' % type(e).__name__)
        except Exception as e:
            res.hook('getTimes.return')
            res.note('getTimes-raised:%s' % type(e).__name__)
            res.ev(dg, False, facets + ['raised'])
            return
    res.ev(dg, True, facets)
    if problems:
        res.viol('wrong-instant:tau:' + spec['via'], '; '.join(problems[:3]),
                 via=spec['via'])


def run(spec, res):
    if spec['mode'] == 'tau':
        return run_tau(spec, res)
    if spec['mode'] == 'cf':
        run_cf(spec, res)
    elif spec['mode'] == 'sweep':
        run_sweep(spec, res)
    else:
        run_ioapi(spec, res)
