"""C13 -- memory-mapped and record-based CAMx readers agree.

Monitor: both reader families opened on the same reference-encoded image under
a logical-step budget; every shared variable read in full; oracle: equal
dimension lengths, equal float data up to length-1 axes, equal time flags."""
import os

import numpy as np

from .. import harness, refcamx
from ..cli import digest
from .c09 import open_lib

PROP = 'C13'
LEVEL = 'exploration'
RULE = ('reference-encoded images of each format that has both reader '
        'families (uamiv AVERAGE/EMISSIONS/INSTANT/AIRQUALITY, temperature, '
        'height/pressure, humidity, vertical diffusivity, wind, generic '
        'one-3D) with nx != ny != nz, 1-4 steps, start hours placing steps '
        'across midnight and year ends; both readers run under a '
        'backward-jump budget; plus the bundled sample file of each format. '
        'Cases one reader rejects by raising are outside '
        'the property ("that both accept") and are counted separately. '
        'non-trivial = both readers accepted; distinct = digest of the spec.')
RULE += (' Also: images whose header carries nz=0, readers called without a shape, a gridded decoy file with the species in another order read first.')
RULE += (' For the formats whose size does not tell steps from layers (height/pressure, one-3D family) the path holds, just before, another valid file of the same grid, start and size with steps and layers exchanged, read by both readers.')
RULE += (' One file in eight ends exactly at midnight (1 to 24 hourly or 3-hourly steps), its end stamped on the next date at hour 0 or, in the hour-24 convention, on the same date.')
ASSUMPTIONS = [
    'termination is decided on logical steps: more than 2,000,000 backward '
    'jumps inside the library for an image of at most a few kilobytes is '
    'non-termination (terminating opens need < 20,000)',
    'a reader that raises puts the file outside the property; the evidence '
    'reports how many images both accepted',
]
HOOKS = ['memmap.return', 'read.return', 'oracle.compare']
MIN_DISTINCT = {'quick': 150, 'thorough': 3000}
N = {'quick': 500, 'thorough': 10000}
FMTS = ['uamiv', 'temperature', 'height_pressure', 'humidity',
        'vertical_diffusivity', 'wind', 'one3d']
FACETS_REQUIRED = {t: ['both:' + f for f in FMTS]
                   for t in ('quick', 'thorough')}
BUDGET = 2000000
JOBS = {'quick': 8}


def ncases(tier):
    return N[tier] + len(FMTS)


def gen(rng, idx, tier, seed):
    if idx >= N[tier]:
        # the sample file bundled with the library (4 rows x 5 columns)
        fmt = FMTS[idx - N[tier]]
        return {'sample': True, 'fmt': fmt, 'ny': 4, 'nx': 5, 'nt': 2,
                'sdate': 2002154, 'shour': 0, 'dhour': 1,
                'name': 'AVERAGE'}
    spec = refcamx.gen_spec(rng, FMTS[idx % len(FMTS)])
    if spec['fmt'] == 'uamiv':
        # the property names gridded average and emissions files
        # (AIRQUALITY/INSTANT files hold a single instant by convention)
        spec['name'] = 'AVERAGE' if spec['name'] in ('AVERAGE', 'INSTANT') \
            else 'EMISSIONS'
        if spec['name'] == 'EMISSIONS' and rng.random() < 0.4:
            # two-dimensional emissions: one layer of records, the grid
            # header says nz = 0 (both readers accept that)
            spec['nz'] = 1
            spec['hdr_nz'] = 0
    elif spec['fmt'] != 'wind' and rng.random() < 0.2:
        # meteorological readers called without the grid shape
        spec['noshape'] = True
    r2 = np.random.default_rng([spec['seed'], 131])
    if spec['fmt'] != 'landuse' and r2.random() < 0.12:
        # a file that ends exactly at midnight (a model day, or the last
        # hours of one): its end is stamped on the next date, hour 0, or - in
        # the hour-24 convention - on the same date
        spec['dhour'] = int(r2.choice([1, 1, 3]))
        spec['nt'] = int(r2.choice([1, 2, 3, 6, 24 // spec['dhour']]))
        spec['shour'] = 24 - spec['nt'] * spec['dhour']
        spec['sdate'] = int(r2.choice([2005185, 2024059, 2023364, 2001001]))
        if r2.random() < 0.4:
            spec['eod24'] = True
    return spec


def read_all(fmt, path, spec, reader, res):
    """-> (status, dims, vars, tflag)"""
    dims = None
    try:
        with harness.step_budget(BUDGET) as b:
            if spec.get('noshape'):
                from PseudoNetCDF.camxfiles import Memmaps, Readers
                f = getattr(Memmaps if reader == 'Memmap' else Readers,
                            fmt)(path)
            else:
                f = open_lib(fmt, path, spec, reader=reader)
            dims = {k: len(d) for k, d in f.dimensions.items()}
            out = {}
            for k in list(f.variables.keys()):
                out[k] = np.array(np.asarray(f.variables[k][...]), copy=True)
        return 'ok', dims, out, b.count
    except harness.StepBudgetExceeded as e:
        return 'hang', None, str(e), None
    except Exception as e:
        if dims is not None:
            # the open succeeded (the reader ACCEPTED the file and exposes
            # dimensions); only the data access raised
            return 'opened', dims, repr(e), None
        return 'raised', None, repr(e), None


def run(spec, res):
    fmt = spec['fmt']
    dg = digest(spec)
    facets = ['fmt:' + fmt, 'nt:%d' % spec['nt']]
    if spec.get('noshape'):
        facets.append('no-shape-arguments')
    if 'hdr_nz' in spec:
        facets.append('header-nz-0')
    with harness.casedir() as d:
        if spec.get('sample'):
            from PseudoNetCDF.testcase import camxfiles_paths
            path = camxfiles_paths['vertical_diffusivity' if fmt == 'one3d'
                                   else fmt]
            facets.append('sample')
        else:
            path = os.path.join(d, 'img.' + fmt)
            if fmt in ('height_pressure', 'humidity', 'vertical_diffusivity',
                       'one3d') and spec['nt'] != spec['nz'] and \
                    spec['nt'] >= 2 and spec['nz'] >= 2 and \
                    spec['seed'] % 2 == 0 and not spec.get('noshape'):
                # the path held another valid file of the same grid, start
                # and SIZE a moment ago (steps and layers exchanged: the
                # same number of records), and both readers have read it
                try:
                    import gc
                    ps = dict(spec, nt=spec['nz'], nz=spec['nt'],
                              seed=spec['seed'] + 7)
                    with open(path, 'wb') as fh:
                        fh.write(refcamx.encode(ps))
                    for rd in ('Memmap', 'Read'):
                        read_all(fmt, path, ps, rd, res)
                    gc.collect()
                    os.remove(path)
                    facets.append('path-held-same-size-file')
                except Exception:
                    res.note('path-reuse-setup-failed')
            with open(path, 'wb') as fh:
                fh.write(refcamx.encode(spec))
        if fmt == 'uamiv' and not spec.get('sample') and \
                len(spec.get('names', [])) > 1:
            # another gridded file with the same species in another order is
            # opened by both readers first: what one open file knows must not
            # leak into the next
            try:
                ds = dict(spec, names=list(spec['names'])[::-1],
                          seed=spec['seed'] + 1, nt=1, dhour=1, shour=3,
                          sdate=2005185)
                dp = os.path.join(d, 'decoy.uamiv')
                with open(dp, 'wb') as fh:
                    fh.write(refcamx.encode(ds))
                for rd in ('Memmap', 'Read'):
                    read_all(fmt, dp, ds, rd, res)
                facets.append('decoy-open')
            except Exception:
                res.note('decoy-open-failed')
        sm, dm, vm, cm = read_all(fmt, path, spec, 'Memmap', res)
        res.hook('memmap.return')
        sr, dr, vr, cr = read_all(fmt, path, spec, 'Read', res)
        res.hook('read.return')
    for who, st, info in (('Memmap', sm, vm), ('Read', sr, vr)):
        if st == 'hang':
            res.ev(dg, True, facets + ['hang:' + who])
            res.viol('reader-does-not-terminate:%s:%s' % (fmt, who),
                     '%s.%s on a valid %d-step image: %s'
                     % (fmt, who, spec['nt'], info), fmt=fmt, reader=who,
                     nt=spec['nt'], sdate=spec['sdate'], shour=spec['shour'])
            return
    if sm in ('ok', 'opened') and sr in ('ok', 'opened') and 'opened' in (
            sm, sr):
        # both accepted the file at open; one then failed to deliver data:
        # the dimension lengths both expose are still comparable
        problems = ['dimension %s: Memmap %d, Read %d' % (k, dm[k], dr[k])
                    for k in dm if k in dr and dm[k] != dr[k]]
        res.ev(dg, True, facets + ['opened-only:%s' % (
            'Memmap' if sm == 'opened' else 'Read')])
        res.note('data-access-raised-after-open:%s:%s' % (
            'Memmap' if sm == 'opened' else 'Read', fmt))
        if problems:
            res.viol('readers-disagree:' + fmt, '%s nt=%d start %d %02d '
                     'step %dh: %s (data access of the %s reader then '
                     'raised %s)' % (fmt, spec['nt'], spec['sdate'],
                                     spec['shour'], spec.get('dhour', 1),
                                     '; '.join(problems[:4]),
                                     'Memmap' if sm == 'opened' else 'Read',
                                     (vm if sm == 'opened' else vr)[:120]),
                     fmt=fmt, nt=spec['nt'], problems=problems[:8],
                     sdate=spec['sdate'], shour=spec['shour'],
                     after_open=True)
        return
    if sm != 'ok' or sr != 'ok':
        res.ev(dg, False, facets + ['rejected:%s' % (
            'Memmap' if sm != 'ok' else 'Read')])
        res.note('rejected-by-%s:%s' % ('Memmap' if sm != 'ok' else 'Read',
                                        fmt))
        return
    res.facet('both:' + fmt)
    problems = []
    for k in dm:
        if k in dr and dm[k] != dr[k]:
            problems.append('dimension %s: Memmap %d, Read %d'
                            % (k, dm[k], dr[k]))
    shared = [k for k in vm if k in vr]
    if not shared:
        problems.append('no shared variables (%s vs %s)'
                        % (list(vm), list(vr)))
    for k in shared:
        res.hook('oracle.compare')
        a, b = np.squeeze(vm[k]), np.squeeze(vr[k])
        if a.shape != b.shape:
            problems.append('%s: Memmap shape %s, Read shape %s'
                            % (k, vm[k].shape, vr[k].shape))
            continue
        if a.dtype.kind == 'f' or b.dtype.kind == 'f':
            same = a.astype('f4').tobytes() == b.astype('f4').tobytes()
        else:
            same = np.array_equal(a, b)
        if not same:
            ne = np.argwhere(np.atleast_1d(a != b))
            i = tuple(ne[0]) if len(ne) else ()
            problems.append('%s: %d values differ, first %s: Memmap %r, '
                            'Read %r' % (k, len(ne), i,
                                         np.atleast_1d(a)[i],
                                         np.atleast_1d(b)[i]))
    res.ev(dg, True, facets)
    if problems:
        res.viol('readers-disagree:' + fmt, '%s nt=%d start %d %02d: %s'
                 % (fmt, spec['nt'], spec['sdate'], spec['shour'],
                    '; '.join(problems[:4])), fmt=fmt, nt=spec['nt'],
                 problems=problems[:8], sdate=spec['sdate'],
                 shour=spec['shour'])


def extra_coverage(agg, tier):
    return {'images_both_readers_accepted': sum(
        c for k, c in agg['facets'].items() if k.startswith('both:')),
        'images_rejected_by_one_reader': {
            k: c for k, c in agg['notes'].items()
            if k.startswith('rejected-by')}}
