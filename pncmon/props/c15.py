"""C15 -- format auto-detection depends only on the file, not on history.

Monitor: every pncopen(path) (no format) of enumerated open histories over a
pool of files, with a snapshot of the reader registry before/after each open;
oracle: (reader class, dimension map, data digest) of a probe after history h
equals the same observation made from the import-time registry; and for
self-describing formats auto-detected == explicitly named format."""
import hashlib
import json
import os
import subprocess
import sys

import numpy as np

from .. import harness, refarl, refbpch, refcamx
from ..cli import digest

PROP = 'C15'
LEVEL = 'exploration'
RULE = ('pool of 23 files: uamiv, lateral boundary, bpch, ICARTT, netCDF, '
        'IOAPI-netCDF, ARL packed-bit and one-3D content, each with its '
        'canonical extension, without extension, and (one-3D / netCDF '
        'families) under each sibling reader\'s extension, plus two '
        'unreadable files under a reader\'s extension and two files of a '
        'reader registered only by a history event. Events: a format-less '
        'open of any pool file, the late registration of that reader, an '
        'open naming a valid reader other than the detected one. ALL event '
        'histories up to the tier bound (quick: length <= 2, thorough: '
        'length <= 3) are run from the import-time interpreter state (forked '
        'children of a pristine helper process) and followed by every pool '
        'file as probe. evaluations = probe opens; non-trivial = history is '
        'non-empty; distinct = digest of (history, probe).')
RULE += (" Events also include re-registration, opens with reader keywords (endian='little' among them) and opens by relative name from a private working directory whose content changes between events (32 event tokens in all).")
RULE += (' Two more bpch pool files in directories of their own (other tracers and times; a tracer without a line in its tracerinfo.dat), an event naming the block-walking reader for one of them, and three reader-naming probes after every history (25 files, 35 event tokens).')
RULE += (' Two netCDF-4 (HDF5) files and a truncated copy of one that the netCDF library refuses; the gridded, boundary and one-3D pool files share one time axis and differ in their number of variables (28 files, 38 event tokens).')
RULE += (' A one-3D file whose name has two dots (m.d01.humidity); for the one-3D files under a sibling reader\'s extension the format-less open is compared with the open that names that reader (29 files, 39 event tokens).')
ASSUMPTIONS = [
    'every (history, probe) pair runs in a fork()ed child of a helper '
    'process that has imported the library and never opened a file, so the '
    'whole interpreter state (not only the registry list) is the '
    'import-time state at the start of each history',
    'data digest = sha1 over every variable\'s bytes in keys() order',
    'a probe that raises is compared by exception type',
]
HOOKS = ['pncopen.return', 'registry.snapshot', 'explicit-vs-auto.compare']
TECHNIQUE = ('runtime monitoring over exhaustively enumerated open '
             'histories: behavioural comparison with the history-free '
             'observation + registry-unchanged invariant as diagnostic')
MIN_DISTINCT = {'quick': 3000, 'thorough': 50000}
FACETS_REQUIRED = {t: ['event:open', 'event:reg', 'event:openx',
                       'event:rereg', 'event:openkw']
                   for t in ('quick', 'thorough')}
HLEN = {'quick': 2, 'thorough': 3}
JOBS = {'quick': 14}
EXHAUSTIVE = {'quick': True, 'thorough': True}

POOL = [
    # (file name, content kind, explicit format or None)
    ('a.uamiv', 'uamiv', 'uamiv'), ('a_noext', 'uamiv', 'uamiv'),
    ('b.lateral_boundary', 'lateral_boundary', 'lateral_boundary'),
    ('b_noext', 'lateral_boundary', 'lateral_boundary'),
    ('c.bpch', 'bpch', 'bpch'), ('c_noext', 'bpch', 'bpch'),
    ('d.ffi1001', 'ict', 'ffi1001'), ('d.ict', 'ict', 'ffi1001'),
    ('e.nc', 'nc', 'netcdf'), ('e_noext', 'nc', 'netcdf'),
    ('g.arlpackedbit', 'arl', 'arlpackedbit'), ('g_noext', 'arl',
                                                'arlpackedbit'),
    ('h.humidity', 'one3d', 'humidity'),
    ('h.vertical_diffusivity', 'one3d', 'vertical_diffusivity'),
    # (a name with more than one dot: the extension is what follows the
    # LAST one)
    ('m.d01.humidity', 'one3d', 'humidity'),
    ('h.one3d', 'one3d', None), ('h_noext', 'one3d', None),
    # files no reader accepts, under a reader's extension: detection fails
    # (raises); what a failed open leaves behind is part of the history
    ('x.humidity', 'garbage', None), ('y.nc', 'garbage', None),
    # files of a reader that is only registered by a 'reg' event of the
    # history (a user subclass defined after import)
    ('z.verifdemo', 'demo', None), ('z_noext', 'demo', None),
    # a gridded file written on a little-endian machine (readable only with
    # the reader's endian keyword)
    ('a_le.bin', 'uamiv_le', None),
    # the same RELATIVE name 'w.swap' in the process's private working
    # directory, holding one-3D content resp. gridded content at the time of
    # the open (a path string says nothing about what the file holds now)
    ('rel>h.humidity', 'rel', None), ('rel>a.uamiv', 'rel', None),
    # two more bpch files, each in a directory of its own with its own
    # tables: other tracers and times (sub2), and a tracer that has no line
    # in the tracerinfo.dat beside it (sub3)
    ('sub2/c2.bpch', 'bpch2nd', 'bpch'), ('sub3/c3.bpch', 'bpch3rd', 'bpch'),
    # netCDF-4 (HDF5 container) files, and a truncated copy of one (HDF5
    # signature, refused by the netCDF library)
    ('e4.nc', 'nc4', 'netcdf'), ('e4_noext', 'nc4', 'netcdf'),
    ('e4cut.nc', 'nc4cut', None),
]
NP = len(POOL)
# probes that NAME a reader: made after every history in addition to the
# format-less probes (a reader selected by name must not depend on the
# history either)
NAMED_PROBES = [('c.bpch', 'bpch2'), ('sub2/c2.bpch', 'bpch2'),
                ('sub3/c3.bpch', 'bpch1')]
# history events: format-less opens of every pool file, the late
# registration of a reader, and opens that NAME a valid reader other than the
# one auto-detection selects for that file
TOKENS = [('open', n) for n, _, _ in POOL if not n.startswith('rel>')] + [
    ('reg',),
    ('openx', 'h.humidity', 'vertical_diffusivity'),
    ('openx', 'c.bpch', 'bpch1'),
    ('openx', 'h_noext', 'humidity'),
    ('openx', 'e.nc', 'ioapi'),
    ('openx', 'sub2/c2.bpch', 'bpch2'),
    # the same reader registered again under its name (the set of
    # registered readers does not change)
    ('rereg', 'humidity'), ('rereg', 'one3d'),
    # an open that asks the bpch front end for its block-walking reader
    ('openkw', 'c.bpch', 'bpch', 'reader=bpch2'),
    ('openkw', 'a_le.bin', 'uamiv', 'endian=little'),
    ('open', 'rel>h.humidity'), ('open', 'rel>a.uamiv'),
]
NT = len(TOKENS)


def histories(maxlen):
    out = [()]
    for n in range(1, maxlen + 1):
        idx = np.indices((NT,) * n).reshape(n, -1).T
        out += [tuple(int(x) for x in row) for row in idx]
    return out


_H = {}


def hist(tier):
    if tier not in _H:
        _H[tier] = histories(HLEN[tier])
    return _H[tier]


def ncases(tier):
    return len(hist(tier))


def gen(rng, idx, tier, seed):
    return {'history': list(hist(tier)[idx])}


# ---------------------------------------------------------------------------
_pool = {}


def make_pool():
    """the pool is deterministic (fixed seeds): same bytes in every worker"""
    if _pool:
        return _pool
    import netCDF4
    d = os.path.join(harness.tmproot(), 'c15pool')
    os.makedirs(d, exist_ok=True)
    rng = np.random.default_rng(20260926)
    img = {}
    s = refcamx.gen_spec(rng, 'uamiv')
    # (the gridded, boundary and one-3D files share their time axis and
    # differ in the number of variables)
    s.update(nx=4, ny=3, nz=2, nt=2, sdate=2005185, shour=3, dhour=1,
             name='AVERAGE', iproj=2)
    img['uamiv'] = refcamx.encode(s)
    s = refcamx.gen_spec(rng, 'lateral_boundary')
    s.update(nx=4, ny=3, nz=2, nt=2, sdate=2005185, shour=3, dhour=1,
             iproj=2)
    img['lateral_boundary'] = refcamx.encode(s)
    s = refcamx.gen_spec(rng, 'one3d')
    s.update(nx=4, ny=3, nz=2, nt=2, sdate=2005185, shour=3, dhour=1)
    img['one3d'] = refcamx.encode(s)
    bs = refbpch.gen_spec(rng)
    img['bpch'] = refbpch.encode(bs)
    with open(os.path.join(d, 'tracerinfo.dat'), 'w') as fh:
        fh.write(refbpch.tracerinfo_text(bs))
    with open(os.path.join(d, 'diaginfo.dat'), 'w') as fh:
        fh.write(refbpch.diaginfo_text(bs))
    rng2 = np.random.default_rng(20260927)
    for sub, kind, drop in (('sub2', 'bpch2nd', False),
                            ('sub3', 'bpch3rd', True)):
        b2 = refbpch.gen_spec(rng2, small=True)
        b2['tau0'] = bs['tau0'] + 8760.0 * (2 if drop else 1)
        b2['nt'] = 2
        img[kind] = refbpch.encode(b2)
        os.makedirs(os.path.join(d, sub), exist_ok=True)
        ttxt = refbpch.tracerinfo_text(b2)
        if drop:
            # the last tracer of the file has no line in the table
            tl = ttxt.rstrip('\n').split('\n')
            ttxt = '\n'.join(tl[:-1]) + '\n'
        with open(os.path.join(d, sub, 'tracerinfo.dat'), 'w') as fh:
            fh.write(ttxt)
        with open(os.path.join(d, sub, 'diaginfo.dat'), 'w') as fh:
            fh.write(refbpch.diaginfo_text(b2))
    asp = refarl.gen_spec(rng)
    asp.update(nx=24, ny=20)
    img['arl'] = refarl.encode(asp)[0]
    ict = ['%d, 1001' % (12 + 2 + 1 + 1 + 1), 'Doe, Jane', 'pncmon',
           'synthetic', 'VERIF', '1, 1', '2010, 06, 15, 2011, 01, 02', '1',
           'Start_UTC, seconds', '2', '1, 1', '-9999, -9999', 'O3, ppbv',
           'CO, ppmv', '0', '0', 'Start_UTC, O3, CO']
    ict += ['%d, %.3f, %.3f' % (36000 + i, 40 + i, 0.1 * i)
            for i in range(40)]
    img['ict'] = ('\n'.join(ict) + '\n').encode()
    img['garbage'] = b'\x07garbage\x00\x01'
    img['uamiv_le'] = refcamx.to_little_endian_uamiv(img['uamiv'])
    img['demo'] = b'VERIFDEMO' + bytes(range(1, 12))
    for name, kind, fmt in POOL:
        p = os.path.join(d, name)
        if kind == 'rel':
            _pool[name] = 'rel>' + os.path.join(d, name[4:])
            continue
        if kind == 'nc':
            if not os.path.exists(p):
                ds = netCDF4.Dataset(p, 'w', format='NETCDF3_CLASSIC')
                ds.createDimension('t', None)
                ds.createDimension('x', 3)
                v = ds.createVariable('v', 'f4', ('t', 'x'))
                v[0:2, :] = np.arange(6).reshape(2, 3) + 0.5
                ds.title = 'pool'
                ds.close()
        elif kind == 'nc4':
            if not os.path.exists(p):
                ds = netCDF4.Dataset(p, 'w', format='NETCDF4')
                ds.createDimension('t', None)
                ds.createDimension('x', 3)
                v = ds.createVariable('v', 'f4', ('t', 'x'))
                v[0:3, :] = np.arange(9).reshape(3, 3) + 0.25
                ds.title = 'pool (netCDF-4)'
                ds.close()
        elif kind == 'nc4cut':
            if not os.path.exists(p):
                whole = open(os.path.join(d, 'e4.nc'), 'rb').read()
                with open(p, 'wb') as fh:
                    fh.write(whole[:len(whole) // 3])
        else:
            with open(p, 'wb') as fh:
                fh.write(img[kind])
        _pool[name] = p
    return _pool


def observe(path, fmt=None):
    """-> (reader class name | exception type, dims, data digest)"""
    import PseudoNetCDF as pnc
    f = None
    if path.startswith('rel>'):
        import shutil
        shutil.copyfile(path[4:], 'w.swap')
        path = 'w.swap'
    try:
        f = pnc.pncopen(path, format=fmt) if fmt else pnc.pncopen(path)
        cls = type(f).__module__.split('.')[-2:] + [type(f).__name__]
        cls = '.'.join(cls[-2:])
        dims = {k: len(v) for k, v in f.dimensions.items()}
        h = hashlib.sha1()
        for k in list(f.variables.keys()):
            try:
                a = np.asarray(f.variables[k][...])
                h.update(k.encode())
                h.update(np.ascontiguousarray(a).tobytes())
            except Exception as e:
                h.update(('%s!%s' % (k, type(e).__name__)).encode())
        return [cls, dims, h.hexdigest()[:16]]
    except Exception as e:
        return ['raised:' + type(e).__name__, {}, '']
    finally:
        try:
            if f is not None:
                f.close()
        except Exception:
            pass


def register_demo():
    """defines (and thereby registers) a reader class, as user code does"""
    from PseudoNetCDF.core._files import PseudoNetCDFFile

    class verifdemo(PseudoNetCDFFile):
        @classmethod
        def isMine(cls, path, *args, **kwds):
            try:
                with open(path, 'rb') as fh:
                    return fh.read(9) == b'VERIFDEMO'
            except Exception:
                return False

        def __init__(self, path, *args, **kwds):
            with open(path, 'rb') as fh:
                raw = fh.read()[9:]
            self.createDimension('n', len(raw))
            v = self.createVariable('b', 'i', ('n',))
            v[:] = np.frombuffer(raw, 'u1')
    return verifdemo


_z = {}


def zygote():
    """A helper process that has imported the library and has never opened a
    file.  Every observation is made in a fork()ed child of it, so each
    (history, probe) pair starts from the exact import-time state of the
    whole interpreter -- not only of the registry list."""
    if 'p' not in _z:
        code = ("import sys\n"
                "sys.path.insert(0, %r); sys.path.insert(0, %r)\n"
                "from pncmon.props import c15\n"
                "c15.serve()\n") % (harness.VERIF,
                                     os.path.join(harness.VERIF, '.deps'))
        _z['p'] = subprocess.Popen(
            [sys.executable, '-c', code], stdin=subprocess.PIPE,
            stdout=subprocess.PIPE, stderr=subprocess.DEVNULL, text=True,
            env=dict(os.environ, PYTHONHASHSEED='0'))
        import atexit
        atexit.register(lambda: _z['p'].kill())
    return _z['p']


def ask(history_paths, probe, fmt=None):
    z = zygote()
    z.stdin.write(json.dumps({'history': history_paths, 'probe': probe,
                              'fmt': fmt}) + '\n')
    z.stdin.flush()
    line = z.stdout.readline()
    if not line:
        raise RuntimeError('zygote died')
    return json.loads(line)


def serve():
    """runs inside the zygote"""
    harness.setup()
    from PseudoNetCDF import _getreader
    for line in sys.stdin:
        req = json.loads(line)
        r, w = os.pipe()
        pid = os.fork()
        if pid == 0:
            os.close(r)
            import shutil
            import tempfile
            priv = tempfile.mkdtemp(dir=harness.tmproot())
            os.chdir(priv)
            try:
                reg0 = list(_getreader._readers)
                grew = 0
                for ev in req['history']:
                    if ev[0] == 'reg':
                        register_demo()
                        reg0 = list(_getreader._readers)
                        continue
                    if ev[0] == 'rereg':
                        _getreader.registerreader(
                            ev[1], _getreader.getreaderdict()[ev[1]])
                        continue
                    if ev[0] == 'openkw':
                        import PseudoNetCDF as pnc
                        kw = dict(x.split('=') for x in ev[3].split(','))
                        try:
                            g = pnc.pncopen(ev[1], format=ev[2], **kw)
                            list(g.variables.keys())
                        except Exception:
                            pass
                        continue
                    observe(ev[1], fmt=ev[2] if ev[0] == 'openx' else None)
                    if list(_getreader._readers) != reg0:
                        grew += 1
                out = observe(req['probe'], fmt=req.get('fmt'))
                out.append(grew)
            except BaseException as e:
                out = ['child-error:' + type(e).__name__, {}, '', 0]
            os.write(w, json.dumps(out).encode())
            os.chdir('/')
            shutil.rmtree(priv, True)
            os._exit(0)
        os.close(w)
        data = b''
        while True:
            chunk = os.read(r, 65536)
            if not chunk:
                break
            data += chunk
        os.close(r)
        os.waitpid(pid, 0)
        sys.stdout.write((data.decode() or 'null') + '\n')
        sys.stdout.flush()


_base = {}


def run(spec, res):
    pool = make_pool()
    hist_ = spec['history']
    toks = [TOKENS[h] for h in hist_]
    hpaths = [[t[0]] + ([pool[t[1]] if t[0] != 'rereg' else t[1]]
                         if len(t) > 1 else []) + list(t[2:])
              for t in toks]
    # "the file and the set of registered readers": the history-free
    # reference has the same registrations and no opens
    regs = [['reg']] if any(t[0] == 'reg' for t in toks) else []
    for t in toks:
        res.facet('event:' + t[0])
    problems = []
    grew = 0
    for pi, (name, kind, fmt) in enumerate(POOL):
        bkey = (name, bool(regs))
        if bkey not in _base:
            _base[bkey] = ask(regs, pool[name])[:3]
        got = ask(hpaths, pool[name])
        if got is None:
            res.note('inconclusive:child-produced-nothing')
            continue
        res.hook('pncopen.return', 1 + len(hist_))
        res.hook('registry.snapshot', len(hist_) or 1)
        grew = max(grew, got[3] if len(got) > 3 else 0)
        res.ev(digest([hist_, pi]), len(hist_) > 0, ['hlen:%d' % len(hist_)])
        if got[:3] != _base[bkey]:
            problems.append(
                'after %s, %s opens as %s %s (from the import-time state%s: '
                '%s %s)' % ([' '.join(t) for t in toks], name, got[0],
                            got[1], ' plus the same registration' if regs
                            else '', _base[bkey][0], _base[bkey][1]))
    for name, fmt in NAMED_PROBES:
        bkey = (name, bool(regs), fmt)
        if bkey not in _base:
            _base[bkey] = ask(regs, pool[name], fmt=fmt)[:3]
        got = ask(hpaths, pool[name], fmt=fmt)
        if got is None:
            res.note('inconclusive:child-produced-nothing')
            continue
        res.hook('pncopen.return', 1 + len(hist_))
        res.ev(digest([hist_, name, fmt]), len(hist_) > 0,
               ['named-probe'])
        if got[:3] != _base[bkey]:
            problems.append(
                'after %s, %s opened with format=%r is %s %s (from the '
                'import-time state: %s %s)' % (
                    [' '.join(t) for t in toks], name, fmt, got[0], got[1],
                    _base[bkey][0], _base[bkey][1]))
    if not hist_:
        for name, kind, fmt in POOL:
            if fmt is None:
                continue
            bkey = (name, False)
            ex = ask([], pool[name], fmt=fmt)
            res.hook('explicit-vs-auto.compare')
            if ex[1:3] != _base[bkey][1:3]:
                problems.append(
                    '%s: auto-detected as %s with dims %s, format=%r gives '
                    '%s with dims %s' % (name, _base[bkey][0],
                                         _base[bkey][1], fmt, ex[0], ex[1]))
    else:
        res.hook('explicit-vs-auto.compare', 0)
    if problems:
        res.viol('history-dependent-detection' if hist_ else
                 'explicit-differs-from-auto',
                 '; '.join(problems[:3]), history=[' '.join(t) for t in toks],
                 registry_changed_during_history=grew,
                 nproblems=len(problems))


def extra_coverage(agg, tier):
    return {'histories_enumerated': len(hist(tier)),
            'history_bound': 'all sequences of length <= %d over %d events '
                             '(%d format-less opens, 1 late registration, '
                             '2 re-registrations, %d opens naming another '
                             'valid reader or reader keyword)'
                             % (HLEN[tier], NT, NP, NT - NP - 3)}
    # (the format-less opens include the two relative-name opens)
