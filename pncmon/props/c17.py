"""C17 -- interpolation is linear-exact; conservative regridding conserves
column mass.

Monitor: icontract postconditions (algebraic laws) on the real
getinterpweights / sigma2coeff, and file-level laws on interpDimension,
interpSigma (linear and conserve) and interpvars."""
import icontract
import numpy as np

from .. import gen_core, gen_ioapi, harness
from ..cli import digest

PROP = 'C17'
LEVEL = 'exploration'
RULE = ('weights: strictly monotonic source (2-10 levels; 1 level noted) and '
        'target coordinates (ascending/descending, coincident, interleaved, '
        'nested, beyond the source range) with extrapolate on/off; sigma: '
        'from/to sigma edge grids sharing top and bottom (coincident, '
        'interleaved, nested edges, 1-10 layers); file level: variables that '
        'are linear in the coordinate interpolated along any dimension of '
        'rank 1-4 variables (interpDimension with 1-D and with N-D '
        'per-column coordinate variables, interpvars), IOAPI interpSigma '
        'linear and conserve with random fields, also with a model top other '
        'than the file\'s (constant-field law). non-trivial = target differs '
        'from source; distinct = digest of the spec.')
RULE += (' Also: integer-typed source coordinates, coordkey other than the dimension name, a linear-profile law for the linear interpSigma with another model top.')
RULE += (" bpchsigma (one case in 21): the GEOS-Chem class's own interpSigma on the object bpch1/bpch2 return for a reference image with 47-, 30- or 12-layer tracers (copied, profile written): linear profiles in sigma mid-points are reproduced (edge values beyond the inputs unless extrapolating), constant fields stay constant, a random profile is the linear interpolation of its neighbours, target == source is the identity, for the model top, 0 and a top above the model's.")
RULE += (' N-D coordinate cases also place targets beyond a column\'s source range, with and without extrapolate=True.')
RULE += (' The 1-D interpDimension cases pass extrapolate=True in three cases of ten (targets beyond the range continue the line).')
ASSUMPTIONS = [
    'laws, not a reference implementation: non-negativity, partition of '
    'unity, linear exactness, identity, clipping at the edges when not '
    'extrapolating; for sigma2coeff: 0<=c<=1, every source layer fully '
    'distributed, source thickness collected by a target layer equals the '
    'target thickness (hence column integral preserved)',
    'absolute tolerance 1e-9 x coordinate span (float64) / 1e-5 relative for '
    'float32 fields',
    'a single source level cannot define a linear interpolant: raising is '
    'accepted there',
]
HOOKS = ['getinterpweights.contract', 'sigma2coeff.contract',
         'interpDimension.return', 'interpSigma.return', 'interpvars.return',
         'bpch.interpSigma.return']
TECHNIQUE = ('runtime contracts (icontract ensure on the real functions) '
             'checking algebraic laws, plus file-level law monitors')
MIN_DISTINCT = {'quick': 800, 'thorough': 10000}
N = {'quick': 3000, 'thorough': 60000}


class LawBroken(Exception):
    pass


def ncases(tier):
    return N[tier]


def mono(rng, n, lo=0., hi=10.):
    x = np.sort(rng.uniform(lo, hi, n))
    for _ in range(5):
        if n < 2 or np.min(np.diff(x)) > 1e-3 * (hi - lo) / n:
            break
        x = np.sort(rng.uniform(lo, hi, n))
    return x


def gen(rng, idx, tier, seed):
    mode = ['weights', 'sigma', 'weights', 'filedim', 'sigmafile',
            'interpvars', 'filedimnd'][idx % 7]
    spec = {'mode': mode, 'seed': int(rng.integers(1 << 30))}
    if idx % 21 == 17:
        # the GEOS-Chem class has a vertical interpolation of its own (linear
        # in sigma mid-points derived from the model's pressure edges)
        m = int(rng.integers(1, 9))
        kind = str(rng.choice(['inside', 'same', 'beyond', 'coarse']))
        spec.update(mode='bpchsigma', kind=kind, m=m,
                    nl=int(rng.choice([47, 47, 47, 30, 12])),
                    top=str(rng.choice(['model', 'model', 'zero',
                                        'above'])),
                    extrapolate=bool(rng.random() < 0.3),
                    reader=str(rng.choice(['bpch1', 'bpch1', 'bpch2'])),
                    profile=str(rng.choice(['linear', 'linear', 'constant',
                                            'random'])))
        return spec
    if mode == 'filedimnd':
        # N-dimensional coordinate variables: per-column source and target
        rank = int(rng.integers(2, 5))
        spec.update(rank=rank, axis=int(rng.integers(0, rank)),
                    n=int(rng.integers(2, 7)), m=int(rng.integers(1, 7)),
                    nsrc=int(rng.integers(1, 4)),
                    kind=str(rng.choice(['inside', 'inside', 'same',
                                         'interleaved', 'beyond',
                                         'beyond'])))
        # (targets beyond a column's source range: edge values by default,
        # the line continued with extrapolate=True)
        spec['extrapolate'] = bool(rng.random() < 0.5)
        return spec
    if mode in ('weights', 'filedim', 'interpvars'):
        n = int(rng.integers(2, 11)) if rng.random() > 0.03 else 1
        xs = mono(rng, n, -5, 20)
        kind = str(rng.choice(['inside', 'same', 'beyond', 'interleaved',
                               'subset', 'shifted']))
        m = int(rng.integers(1, 9))
        if rng.random() < 0.3:
            # large coordinate values with small spacing (time axes in
            # seconds, heights above a datum)
            xs = xs + float(rng.choice([1e4, 1e7, 1.7e9]))
        if kind == 'same':
            nxs = xs.copy()
        elif kind == 'shifted' and n > 1:
            # same number of levels, each moved by a fraction of the spacing
            frac = float(rng.choice([0.25, 0.5, -0.25, 0.1]))
            dx = np.diff(xs)
            nxs = xs + frac * np.append(dx, dx[-1])
            nxs = np.clip(nxs, xs.min(), xs.max())
        elif kind == 'subset':
            nxs = xs[::2].copy()
        elif kind == 'inside':
            nxs = mono(rng, m, xs.min(), xs.max()) if n > 1 else xs.copy()
        elif kind == 'interleaved':
            nxs = (xs[:-1] + xs[1:]) / 2. if n > 1 else xs.copy()
        else:
            nxs = mono(rng, m, xs.min() - 5, xs.max() + 5)
        if rng.random() < 0.4:
            xs = xs[::-1].copy()
        if rng.random() < 0.3:
            nxs = nxs[::-1].copy()
        spec.update(xs=[float(x) for x in xs], nxs=[float(x) for x in nxs],
                    kind=kind, extrapolate=bool(rng.random() < 0.3),
                    int_source=bool(mode == 'weights' and
                                    rng.random() < 0.2))
        if mode in ('filedim', 'interpvars'):
            spec['rank'] = int(rng.integers(1, 5))
            spec['axis'] = int(rng.integers(0, spec['rank']))
            # (interpvars takes ready-made weights; interpDimension forwards
            # the keyword)
            if mode != 'filedim':
                spec['extrapolate'] = False
            # the coordinate lives in another variable (coordkey=) while the
            # dimension's namesake variable is a plain index
            spec['coordkey'] = bool(mode == 'filedim' and rng.random() < 0.3)
    else:
        n = int(rng.integers(1, 11))
        m = int(rng.integers(1, 11))
        a = np.concatenate([[1.], np.sort(rng.uniform(0.02, 0.98, n - 1))[
            ::-1], [0.]])
        kind = str(rng.choice(['random', 'same', 'nested', 'coarsen']))
        if kind == 'same':
            b = a.copy()
        elif kind == 'nested':
            extra = np.sort(rng.uniform(0.01, 0.99, m))[::-1]
            b = np.array(sorted(set(a.tolist() + extra.tolist())),
                         dtype='f8')[::-1]
        elif kind == 'coarsen':
            b = np.concatenate([[1.], a[1:-1][::2], [0.]])
        else:
            b = np.concatenate([[1.], np.sort(rng.uniform(0.02, 0.98, m - 1))[
                ::-1], [0.]])
        a = np.array(sorted(set(np.float32(a).tolist())), 'f8')[::-1]
        b = np.array(sorted(set(np.float32(b).tolist())), 'f8')[::-1]
        spec.update(frm=[float(x) for x in a], to=[float(x) for x in b],
                    kind=kind)
        if mode == 'sigmafile':
            spec['interptype'] = str(rng.choice(['linear', 'conserve']))
            # a requested model top below the file's (the rescaled source
            # grid then covers the whole target grid)
            spec['dvgtop'] = float(rng.choice([0, 0, 0, 1000., 2500., 5000.]))
    return spec


def run_filedimnd(spec, res, pnc):
    """interpDimension with N-D coordinate variables: every column has
    its own source coordinate (a few distinct profiles, so neighbouring
    columns share one) and its own target coordinate"""
    rng = np.random.default_rng([spec['seed'], 37])
    rank, ax, n = spec['rank'], spec['axis'], spec['n']
    shape = [int(rng.integers(1, 4)) for _ in range(rank)]
    shape[ax] = n
    dims = ['d%d' % i for i in range(rank)]
    dims[ax] = 'z'
    cols = [s for i, s in enumerate(shape) if i != ax]
    ncol = int(np.prod(cols))
    profiles = [mono(rng, n, -5, 20) for _ in range(spec['nsrc'])]
    # runs of equal source profiles in column order
    which = np.sort(rng.integers(0, len(profiles), ncol))
    src = np.stack([profiles[w] for w in which], 0)          # (ncol, n)
    m = n if spec['kind'] == 'same' else (
        n - 1 if spec['kind'] == 'interleaved' else spec['m'])
    tgt = np.empty((ncol, m))
    for c in range(ncol):
        if spec['kind'] == 'same':
            tgt[c] = src[c]
        elif spec['kind'] == 'interleaved':
            tgt[c] = (src[c][:-1] + src[c][1:]) / 2.
        elif spec['kind'] == 'beyond':
            tgt[c] = mono(rng, m, src[c].min() - 5, src[c].max() + 5)
        else:
            tgt[c] = mono(rng, m, src[c].min(), src[c].max())
    extrap = bool(spec.get('extrapolate')) and spec['kind'] == 'beyond'
    # where the line is evaluated: the target itself, or - without
    # extrapolation - the target clipped to the column's source range
    teff = tgt if extrap else np.clip(tgt, src.min(1)[:, None],
                                      src.max(1)[:, None])

    def to_nd(a2):
        a = a2.reshape(cols + [a2.shape[1]])
        return np.moveaxis(a, -1, ax)
    srcnd, tgtnd, teffnd = to_nd(src), to_nd(tgt), to_nd(teff)
    sl = to_nd(rng.uniform(-2, 2, (ncol, 1)))
    ic = to_nd(rng.uniform(-5, 5, (ncol, 1)))
    f = pnc.PseudoNetCDFFile()
    for d, k in zip(dims, shape):
        f.createDimension(d, k)
    f.createVariable('z', 'd', tuple(dims))[...] = srcnd
    f.createVariable('lin', 'd', tuple(dims))[...] = sl * srcnd + ic
    g = pnc.PseudoNetCDFFile()
    for d, k in zip(dims, shape):
        g.createDimension(d, m if d == 'z' else k)
    nz = g.createVariable('z', 'd', tuple(dims))
    nz[...] = tgtnd
    problems = []
    try:
        out = f.interpDimension('z', nz, extrapolate=True) if extrap \
            else f.interpDimension('z', nz)
        res.hook('interpDimension.return')
        got = np.asarray(out.variables['lin'][...], 'f8')
        exp = sl * teffnd + ic
        tol = 1e-8 * (1 + np.abs(exp).max())
        if got.shape != exp.shape:
            problems.append('N-D interpDimension: lin has shape %s expected '
                            '%s' % (got.shape, exp.shape))
        elif np.abs(got - exp).max() > tol:
            j = np.unravel_index(np.argmax(np.abs(got - exp)), exp.shape)
            problems.append('N-D interpDimension along axis %d of rank %d '
                            '(%d source profiles over %d columns%s): linear '
                            'profile not reproduced at %s: got %r expected %r'
                            % (ax, rank, len(profiles), ncol,
                               ', extrapolate=True' if extrap else '', j,
                               got[j], exp[j]))
        gz = np.asarray(out.variables['z'][...], 'f8')
        if gz.shape != teffnd.shape or np.abs(gz - teffnd).max() > 1e-8 * (
                1 + np.abs(teffnd).max()):
            problems.append('N-D interpDimension: coordinate z after '
                            'interpolation is not the target coordinate')
    except LawBroken:
        raise
    except Exception as e:
        problems.append('N-D interpDimension raised %r' % (e,))
    return problems


# ---------------------------------------------------------------------------
_state = {'problems': [], 'counts': {}}


def weights_laws(xs, nxs, weights, extrapolate):
    p = []
    xs0, nxs0 = xs, nxs
    xs = np.asarray(xs, 'f8')
    nxs = np.asarray(nxs, 'f8')
    w = np.asarray(weights, 'f8')
    if w.shape != (xs.size, nxs.size):
        return ['weights shape %s, expected (%d, %d)' % (w.shape, xs.size,
                                                         nxs.size)]
    if xs.size == 1:
        # a single source level: only target == source is defined
        if nxs.size == 1 and nxs[0] == xs[0] and not (
                np.isfinite(w).all() and abs(w[0, 0] - 1) < 1e-12):
            return ['single source level, target == source, weights %r '
                    '(expected [[1]])' % (w.tolist(),)]
        return []
    if not np.isfinite(w).all():
        return ['non-finite weights']
    span = max(float(xs.max() - xs.min()), 1.0)
    f32 = any(getattr(a, 'dtype', None) == np.float32 for a in (xs0, nxs0))
    tol = (4e-6 if f32 else 1e-9) * span + 256 * np.finfo('f8').eps * \
        float(np.abs(xs).max())
    cs = w.sum(0)
    if np.abs(cs - 1).max() > (1e-5 if f32 else 1e-9):
        p.append('weights of target %d sum to %r' % (
            int(np.argmax(np.abs(cs - 1))), cs[np.argmax(np.abs(cs - 1))]))
    if not extrapolate and w.min() < -1e-12:
        p.append('negative weight %r without extrapolation' % w.min())
    rec = (w * xs[:, None]).sum(0)
    inside = (nxs >= xs.min()) & (nxs <= xs.max())
    exp = np.where(inside | extrapolate, nxs, np.clip(nxs, xs.min(),
                                                     xs.max()))
    bad = np.abs(rec - exp) > tol * (1 + (0 if not extrapolate else
                                          np.abs(nxs - np.clip(
                                              nxs, xs.min(), xs.max()))))
    if bad.any():
        j = int(np.argmax(bad))
        p.append('linear exactness: W.x_old = %r for target %r (%s)'
                 % (rec[j], nxs[j], 'inside' if inside[j] else 'outside'))
    if xs.shape == nxs.shape and np.array_equal(xs, nxs):
        if np.abs(w - np.identity(xs.size)).max() > 1e-12:
            p.append('target == source but weights are not the identity')
    # at most two non-zero weights per target, on adjacent source levels
    if not extrapolate:
        order = np.argsort(xs)
        ws = w[order]
        for j in range(nxs.size):
            nz = np.nonzero(np.abs(ws[:, j]) > 1e-12)[0]
            if nz.size > 2 or (nz.size == 2 and nz[1] - nz[0] != 1):
                p.append('target %d uses non-adjacent source levels %s'
                         % (j, nz.tolist()))
                break
    return p


def _post_weights(xs, nxs, result, extrapolate=False):
    _state['counts']['w'] = _state['counts'].get('w', 0) + 1
    _state['problems'] += ['getinterpweights: ' + x for x in weights_laws(
        xs, nxs, result, extrapolate)]
    return True


def sigma_laws(frm, to, coeff):
    p = []
    frm = np.asarray(frm, 'f8')
    to = np.asarray(to, 'f8')
    c = np.asarray(coeff, 'f8')
    if c.shape != (frm.size - 1, to.size - 1):
        return ['coeff shape %s, expected (%d, %d)' % (c.shape, frm.size - 1,
                                                       to.size - 1)]
    if not np.isfinite(c).all():
        return ['non-finite coefficients']
    if c.min() < -1e-9 or c.max() > 1 + 1e-9:
        p.append('coefficient outside [0,1]: min %r max %r' % (c.min(),
                                                               c.max()))
    share = abs(frm[0] - to[0]) < 1e-12 and abs(frm[-1] - to[-1]) < 1e-12
    if share:
        rs = c.sum(1)
        if np.abs(rs - 1).max() > 1e-6:
            i = int(np.argmax(np.abs(rs - 1)))
            p.append('source layer %d distributed %r (not 1)' % (i, rs[i]))
        dp_in = -np.diff(frm)
        dp_out = -np.diff(to)
        got = (dp_in[:, None] * c).sum(0)
        if np.abs(got - dp_out).max() > 1e-6 * max(1.0, dp_out.max()):
            j = int(np.argmax(np.abs(got - dp_out)))
            p.append('target layer %d collects thickness %r, is %r thick'
                     % (j, got[j], dp_out[j]))
    return p


def _post_sigma(fromvglvls, tovglvls, result):
    _state['counts']['s'] = _state['counts'].get('s', 0) + 1
    _state['problems'] += ['sigma2coeff: ' + x for x in sigma_laws(
        fromvglvls, tovglvls, result)]
    return True


_installed = False


_PRISTINE_ETAI = {}


def install():
    global _installed
    if _installed:
        return
    import PseudoNetCDF.coordutil as cu
    cu.getinterpweights = icontract.ensure(
        _post_weights, error=LawBroken)(cu.getinterpweights)
    cu.sigma2coeff = icontract.ensure(
        _post_sigma, error=LawBroken)(cu.sigma2coeff)
    # the model's pressure edges as they are at import time, before any
    # interpolation has run in this process
    try:
        from PseudoNetCDF.geoschemfiles import _vertcoord
        for k_, v_ in _vertcoord.geos_etai_pressure.items():
            _PRISTINE_ETAI[k_] = np.array(v_, dtype='f8', copy=True)
    except Exception:
        pass
    _installed = True


def drain(res):
    c = _state['counts']
    if c.get('w'):
        res.hook('getinterpweights.contract', c['w'])
    if c.get('s'):
        res.hook('sigma2coeff.contract', c['s'])
    p = list(_state['problems'])
    _state['problems'] = []
    _state['counts'] = {}
    return p


def span_of(xs):
    return float(np.max(xs) - np.min(xs)) if np.size(xs) else 0.0


def run_bpchsigma(spec, res):
    """bpch_base.interpSigma: file-level laws on the object the bpch reader
    returns (copied, so that the profile can be written)"""
    from .. import harness, readerfiles, refbpch
    problems = []
    rng = np.random.default_rng([spec['seed'], 41])
    bs = refbpch.gen_spec(rng, small=True)
    bs['cats'], bs['offsets'] = bs['cats'][:1], bs['offsets'][:1]
    trs = [t for t in bs['tracers'] if t['cat'] == 0][:2]
    for i, t in enumerate(trs):
        t['nl'] = spec['nl'] if i == 0 else 47
        t['k0'] = 1
    bs['tracers'] = trs
    bs['nt'] = 1
    with harness.casedir() as d:
        f, status = readerfiles.open_reader(
            {'kind': spec['reader'], 'spec': bs}, d)
        if f is None:
            res.note('reader-gave-no-file:' + status)
            return [], False
        g = f.copy()
        etai = np.asarray(g.variables['etai_pressure'][:], 'f8') * 100.
        vg = getattr(f, 'vertgrid', 'GEOS-5-REDUCED')
        if vg in _PRISTINE_ETAI:
            # the reference is the table as imported, not what earlier calls
            # in this process may have left behind
            ref = _PRISTINE_ETAI[vg][:etai.size] * 100.
            if ref.shape != etai.shape or not np.allclose(ref, etai,
                                                          rtol=1e-6):
                problems.append(
                    'the pressure edges of a freshly opened file start at '
                    '%r hPa, the %s table as imported says %r (state left '
                    'behind by an earlier call in this process)'
                    % (etai[0] / 100., vg, ref[0] / 100.))
                return problems, True
            etai = ref
        vgtop = {'model': float(etai[-1]), 'zero': 0.0,
                 'above': float(etai[-1]) + 500.}[spec['top']]
        sig = (etai - vgtop) / (etai[0] - vgtop)
        zs = (sig[:-1] + sig[1:]) / 2.
        if spec['kind'] == 'same':
            tgt = sig.copy()
        elif spec['kind'] == 'coarse':
            tgt = sig[::int(rng.integers(2, 6))].copy()
        elif spec['kind'] == 'inside':
            e = np.sort(rng.uniform(zs.min(), zs.max(), spec['m'] + 1))[::-1]
            tgt = e
        else:
            tgt = np.sort(rng.uniform(-0.05, 1.05, spec['m'] + 1))[::-1]
        if tgt.size < 2 or np.min(np.abs(np.diff(tgt))) == 0:
            return [], False
        nzs = (tgt[:-1] + tgt[1:]) / 2.
        a_, b_ = float(rng.uniform(-5, 5)), float(rng.uniform(0.5, 30))
        judged = []
        for k in list(g.variables.keys()):
            v = g.variables[k]
            ld = [dk for dk in v.dimensions if dk.startswith('layer') and
                  dk not in ('layer', 'layer1', 'layer_bounds')]
            if len(ld) != 1 or v.ndim != 4:
                continue
            ax = list(v.dimensions).index(ld[0])
            n = v.shape[ax]
            shp = [1] * v.ndim
            shp[ax] = n
            if spec['profile'] == 'linear':
                prof = a_ + b_ * zs[:n]
            elif spec['profile'] == 'constant':
                prof = np.full(n, a_ + 7.0)
            else:
                prof = rng.uniform(1, 2, n)
            cols = np.asarray(prof.reshape(shp) + np.zeros(v.shape), 'f8')
            v[...] = cols
            judged.append((k, ld[0], ax, n, prof))
        if not judged:
            return [], False
        try:
            out = g.interpSigma(tgt, vgtop=vgtop,
                                extrapolate=spec['extrapolate'])
            res.hook('bpch.interpSigma.return')
        except LawBroken:
            raise
        except Exception as e:
            return ['bpch interpSigma(%d target layers, top=%s) raised %r'
                    % (nzs.size, spec['top'], e)], True
        e_after = np.asarray(g.variables['etai_pressure'][:], 'f8') * 100.
        if e_after.shape != etai.shape or not np.allclose(e_after, etai,
                                                          rtol=1e-6):
            problems.append('interpSigma changed the pressure edges of its '
                            'input: first edge %r -> %r hPa'
                            % (etai[0] / 100., e_after[0] / 100.))
        for k, ldim, ax, n, prof in judged:
            ov = np.asarray(out.variables[k][...], 'f8')
            if ov.shape[ax] != nzs.size or \
                    len(out.dimensions[ldim]) != nzs.size:
                problems.append('%s: %d target layers, result has %d (%s=%d)'
                                % (k, nzs.size, ov.shape[ax], ldim,
                                   len(out.dimensions[ldim])))
                continue
            col = np.moveaxis(ov, ax, 0).reshape(nzs.size, -1)
            if np.abs(col - col[:, :1]).max() > 0:
                problems.append('%s: identical columns interpolated '
                                'differently' % k)
            got = col[:, 0]
            zz = zs[:n]
            lo, hi = zz.min(), zz.max()
            tol = 2e-5 * max(1.0, np.abs(prof).max())
            for j, z in enumerate(nzs):
                inside = lo <= z <= hi
                if n < 47 and not inside:
                    continue    # the variable has no data up there
                if spec['profile'] == 'constant':
                    if n == 47 and abs(got[j] - prof[0]) > tol:
                        problems.append(
                            '%s: constant profile %r became %r at target '
                            'sigma %r' % (k, prof[0], got[j], z))
                    continue
                if spec['profile'] == 'linear':
                    if inside or spec['extrapolate']:
                        want = a_ + b_ * z
                    else:
                        # documented: edge values beyond the inputs
                        want = a_ + b_ * (lo if z < lo else hi)
                    if n < 47 and z < zz[-1]:
                        continue
                    if abs(got[j] - want) > tol * (
                            10 if not inside else 1):
                        problems.append(
                            '%s: linear profile %.4g + %.4g*sigma gives %r '
                            'at target sigma %r, expected %r (%s)'
                            % (k, a_, b_, got[j], z, want,
                               'inside' if inside else 'beyond the inputs'))
                elif inside and n == 47:
                    # piecewise-linear interpolation of the mid-point values
                    want = np.interp(z, zz[::-1], prof[::-1])
                    if abs(got[j] - want) > tol:
                        problems.append(
                            '%s: random profile: %r at target sigma %r, '
                            'linear interpolation of the neighbours gives %r'
                            % (k, got[j], z, want))
            if spec['kind'] == 'same' and n == 47:
                if np.abs(got - prof).max() > tol:
                    problems.append('%s: target grid equals the source grid '
                                    'but the profile changed by %r'
                                    % (k, np.abs(got - prof).max()))
    return problems, spec['kind'] != 'same'


def run(spec, res):
    install()
    if spec['mode'] == 'bpchsigma':
        drain(res)
        problems, nontriv = run_bpchsigma(spec, res)
        problems += drain(res)
        res.ev(digest(spec), nontriv,
               ['mode:bpchsigma', 'kind:' + spec['kind'],
                'top:' + spec['top'], 'profile:' + spec['profile'],
                'reader:' + spec['reader']])
        if problems:
            res.viol('law-broken:bpchsigma', '; '.join(problems[:5]),
                     mode='bpchsigma', tkind=spec['kind'],
                     problems=problems[:10])
        return
    import PseudoNetCDF as pnc
    import PseudoNetCDF.coordutil as cu
    mode = spec['mode']
    drain(res)
    problems = []
    facets = ['mode:' + mode, 'kind:' + spec.get('kind', '')]
    nontriv = True
    if mode == 'weights':
        xs, nxs = np.array(spec['xs']), np.array(spec['nxs'])
        if spec.get('int_source'):
            # an integer-typed source axis (level index, integer pressure
            # levels) with fractional targets
            # (signed and unsigned storage: pressure levels as ushort ...)
            it = ['i8', 'u2', 'i4', 'u4'][spec['seed'] % 4]
            xs = np.round(xs * 3)
            if it.startswith('u') or True:
                xs = xs - xs.min() + 1
            xs = xs.astype(it)
            nxs = nxs - np.array(spec['xs']).min() + 1. / 3.
            if np.unique(xs).size == xs.size and xs.size >= 2:
                nxs = nxs * 3.0
                facets.append('integer-source-axis')
            else:
                xs = np.array(spec['xs'])
        try:
            cu.getinterpweights(xs, nxs, extrapolate=spec['extrapolate'])
        except Exception as e:
            if xs.size < 2:
                res.note('single-level-raised')
                res.hook('getinterpweights.contract')
            else:
                problems.append('getinterpweights raised %r' % (e,))
        nontriv = not (xs.shape == nxs.shape and np.array_equal(xs, nxs))
        facets.append('extrapolate' if spec['extrapolate'] else 'clip')
    elif mode == 'sigma':
        a, b = np.array(spec['frm']), np.array(spec['to'])
        try:
            cu.sigma2coeff(a, b)
        except Exception as e:
            problems.append('sigma2coeff raised %r' % (e,))
        nontriv = not (a.shape == b.shape and np.array_equal(a, b))
    elif mode in ('filedim', 'interpvars'):
        xs, nxs = np.array(spec['xs']), np.array(spec['nxs'])
        if xs.size < 2:
            res.ev(digest(spec), False, facets + ['single-level'])
            res.hook('interpDimension.return', 0)
            return
        rng = np.random.default_rng([spec['seed'], 31])
        rank, ax = spec['rank'], spec['axis']
        shape = [int(rng.integers(1, 4)) for _ in range(rank)]
        shape[ax] = xs.size
        dims = ['d%d' % i for i in range(rank)]
        dims[ax] = 'z'
        f = pnc.PseudoNetCDFFile()
        for d, n in zip(dims, shape):
            f.createDimension(d, n)
        zv = f.createVariable('z', 'd', ('z',))
        zv[:] = xs
        ck = None
        if spec.get('coordkey'):
            zv[:] = np.arange(xs.size)
            ck = 'pz'
            f.createVariable('pz', 'd', ('z',))[:] = xs
            facets.append('coordkey')
        # a field that is linear in z with per-column slope/intercept
        sl = rng.uniform(-2, 2, [1 if i == ax else s
                                 for i, s in enumerate(shape)])
        ic = rng.uniform(-5, 5, sl.shape)
        zshape = [1] * rank
        zshape[ax] = xs.size
        field = sl * xs.reshape(zshape) + ic
        v = f.createVariable('lin', 'd', tuple(dims))
        v[...] = field
        # the same field with one source level missing (NaN under the mask,
        # as xarray writes float fields)
        kmiss = int(rng.integers(0, xs.size)) if mode == 'filedim' and \
            spec['seed'] % 3 == 0 and xs.size >= 3 else None
        if kmiss is not None:
            fm = np.ma.masked_invalid(np.where(
                (np.arange(xs.size) == kmiss).reshape(zshape), np.nan, field))
            vm = f.createVariable('linm', 'd', tuple(dims),
                                  fill_value=np.nan)
            vm[...] = fm
            facets.append('masked-source-level')
        other = f.createVariable('other', 'd', tuple(
            d for d in dims if d != 'z')) if rank > 1 else None
        try:
            if mode == 'filedim':
                ikw = {'extrapolate': True} if spec.get('extrapolate') \
                    else {}
                if ck:
                    out = f.interpDimension('z', nxs, coordkey=ck, **ikw)
                else:
                    out = f.interpDimension('z', nxs, **ikw)
                res.hook('interpDimension.return')
            else:
                from PseudoNetCDF.core._functions import interpvars
                w = cu.getinterpweights(xs, nxs)
                res.hook('interpvars.return')
                if w.shape[0] == w.shape[1]:
                    # interpvars finds the old axis of the weights by its
                    # length: a square matrix is ambiguous and it raises;
                    # the property speaks of returned values only
                    try:
                        out = interpvars(f, w.T, 'z')
                    except ValueError:
                        res.note('interpvars-square-weights-raised')
                        res.ev(digest(spec), False, facets + ['square'])
                        drain(res)
                        return
                else:
                    out = interpvars(f, w.T, 'z')
            got = np.asarray(out.variables['lin'][...], 'f8')
            tz = np.clip(nxs, xs.min(), xs.max())
            if mode == 'filedim' and spec.get('extrapolate'):
                # the line continued beyond the source range
                tz = nxs.copy()
                facets.append('extrapolate')
            zshape[ax] = nxs.size
            exp = sl * tz.reshape(zshape) + ic
            if got.shape != exp.shape:
                problems.append('%s: lin has shape %s expected %s'
                                % (mode, got.shape, exp.shape))
            elif np.abs(got - exp).max() > 1e-8 * (1 + np.abs(exp).max()) + \
                    1e3 * np.finfo('f8').eps * np.abs(xs).max() * \
                    max(1.0, float(np.abs(sl).max())):
                j = np.unravel_index(np.argmax(np.abs(got - exp)), exp.shape)
                problems.append('%s along axis %d of rank %d: linear profile '
                                'not reproduced at %s: got %r expected %r'
                                % (mode, ax, rank, j, got[j], exp[j]))
            if kmiss is not None and 'linm' in out.variables.keys() and \
                    got.shape == exp.shape:
                # target levels bracketed by two VALID source levels are the
                # linear profile; the others are not judged
                gm = np.ma.array(out.variables['linm'][...])
                order = np.argsort(xs)
                sx = xs[order]
                for j, t in enumerate(tz):
                    hi_ = int(np.searchsorted(sx, t, side='left'))
                    lo_ = max(hi_ - 1, 0)
                    hi_ = min(hi_, sx.size - 1)
                    if sx[hi_] == t:
                        lo_ = hi_
                    # (beyond the range the line through the two outermost
                    # levels is continued)
                    if t < sx[0]:
                        lo_, hi_ = 0, 1
                    elif t > sx[-1]:
                        lo_, hi_ = sx.size - 2, sx.size - 1
                    if order[lo_] == kmiss or order[hi_] == kmiss:
                        continue
                    col = np.moveaxis(np.ma.getdata(gm), ax, 0)[j]
                    cm = np.moveaxis(np.ma.getmaskarray(gm), ax, 0)[j]
                    ce = np.moveaxis(exp, ax, 0)[j]
                    if cm.any() or not np.all(np.isfinite(col)) or np.abs(
                            col - ce).max() > 1e-8 * (1 + np.abs(ce).max()) \
                            + 1e3 * np.finfo('f8').eps * np.abs(xs).max() * \
                            max(1.0, float(np.abs(sl).max())):
                        problems.append(
                            'masked source level %d: target %r lies between '
                            'two valid levels but comes out as %s '
                            '(expected %s)' % (kmiss, t, col.ravel()[:3],
                                               ce.ravel()[:3]))
                        break
            if len(out.dimensions['z']) != nxs.size:
                problems.append('dimension z has length %d, expected %d'
                                % (len(out.dimensions['z']), nxs.size))
            if mode == 'filedim':
                gz = np.asarray(out.variables[ck or 'z'][...], 'f8')
                if gz.shape != tz.shape or np.abs(gz - tz).max() > 1e-9 * (
                        1 + np.abs(tz).max()) + 1e-9 * span_of(xs):
                    problems.append('coordinate z after interpolation %s, '
                                    'expected %s' % (gz, tz))
        except LawBroken:
            raise
        except Exception as e:
            problems.append('%s raised %r' % (mode, e))
        facets += ['rank:%d' % rank, 'axis:%d' % ax]
        nontriv = not (xs.shape == nxs.shape and np.array_equal(xs, nxs))
    elif mode == 'filedimnd':
        problems += run_filedimnd(spec, res, pnc)
        facets += ['rank:%d' % spec['rank'], 'axis:%d' % spec['axis']]
        nontriv = spec['kind'] != 'same'
    else:   # sigmafile
        a, b = np.array(spec['frm'], 'f4'), np.array(spec['to'], 'f4')
        rng = np.random.default_rng([spec['seed'], 33])
        ios = gen_ioapi.gen_spec(rng, kind='grid', via='from_arrays')
        ios['nz'] = a.size - 1
        ios['vglvls'] = [float(x) for x in a]
        f = gen_ioapi.build(ios)
        # random positive fields + a constant field
        for k in ios['names']:
            f.variables[k][...] = rng.uniform(1, 10, f.variables[k].shape)
        const = 3.25
        f.variables[ios['names'][0]][...] = const
        dvg = float(spec.get('dvgtop', 0))
        try:
            if dvg:
                out = f.interpSigma(b, vgtop=float(f.VGTOP) + dvg,
                                    interptype=spec['interptype'])
                facets.append('vgtop:other')
            else:
                out = f.interpSigma(b, interptype=spec['interptype'])
            res.hook('interpSigma.return')
            if len(out.dimensions['LAY']) != b.size - 1:
                problems.append('LAY has length %d, expected %d'
                                % (len(out.dimensions['LAY']), b.size - 1))
            c0 = np.asarray(out.variables[ios['names'][0]][...], 'f8')
            if np.abs(c0 - const).max() > 1e-5 * const:
                problems.append('%s: constant field became %r..%r'
                                % (spec['interptype'], c0.min(), c0.max()))
            if spec['interptype'] == 'linear' and len(ios['names']) > 1:
                # a field linear in the (rescaled) sigma mid-points comes
                # out linear at the target mid-points inside the source range
                k1 = ios['names'][1]
                vg0, vg1 = float(f.VGTOP), float(f.VGTOP) + dvg
                a8 = a.astype('f8')
                src = (a8 * (101325. - vg0) + vg0 - vg1) / (101325. - vg1) \
                    if dvg else a8
                zs = (src[:-1] + src[1:]) / 2.
                nzs = (b.astype('f8')[:-1] + b.astype('f8')[1:]) / 2.
                f2 = gen_ioapi.build(ios)
                f2.variables[k1][...] = (2.5 * zs + 1.0)[None, :, None, None]
                if dvg:
                    o2 = f2.interpSigma(b, vgtop=vg1, interptype='linear')
                else:
                    o2 = f2.interpSigma(b, interptype='linear')
                res.hook('interpSigma.return')
                g2 = np.asarray(o2.variables[k1][...], 'f8')[0, :, 0, 0]
                inside = (nzs >= zs.min()) & (nzs <= zs.max())
                want = 2.5 * nzs + 1.0
                if inside.any() and np.abs(g2[inside] - want[inside]).max() \
                        > 2e-5 * (1 + np.abs(want).max()):
                    j = int(np.argmax(np.abs(np.where(inside, g2 - want, 0))))
                    problems.append(
                        'linear%s: a profile linear in sigma is not '
                        'reproduced at target layer %d: got %r expected %r'
                        % (' with vgtop=%g' % vg1 if dvg else '', j, g2[j],
                           want[j]))
            if spec['interptype'] == 'conserve' and not dvg:
                dpi = -np.diff(a.astype('f8'))
                dpo = -np.diff(b.astype('f8'))
                for k in ios['names'][1:]:
                    vin = np.asarray(f.variables[k][...], 'f8')
                    vout = np.asarray(out.variables[k][...], 'f8')
                    mi = (vin * dpi[None, :, None, None]).sum(1)
                    mo = (vout * dpo[None, :, None, None]).sum(1)
                    if np.abs(mi - mo).max() > 2e-5 * np.abs(mi).max():
                        problems.append(
                            'conserve: column integral of %s changed by up '
                            'to %r (relative %r)' % (
                                k, np.abs(mi - mo).max(),
                                np.abs(mi - mo).max() / np.abs(mi).max()))
        except LawBroken:
            raise
        except Exception as e:
            problems.append('interpSigma(%s) raised %r' % (
                spec['interptype'], e))
        facets.append('interptype:' + spec['interptype'])
        nontriv = not (a.shape == b.shape and np.array_equal(a, b))
    problems += drain(res)
    res.ev(digest(spec), nontriv, facets)
    if problems:
        res.viol('law-broken:' + mode, '; '.join(problems[:5]),
                 mode=mode, tkind=spec.get('kind'), problems=problems[:10])
