"""C09 -- binary files conform to the published layout (independent codec).

Direction B: reference encoder -> library reader must expose exactly the
encoded names, dimension lengths, times and values.
Direction A: library writer -> reference decoder: the bytes must be a gap-free
sequence of Fortran records with matching markers whose header counts match
the content and from which the independent decoder recovers exactly what was
written."""
import datetime
import os

import numpy as np

from .. import harness, refcamx
from ..cli import digest

PROP = 'C09'
LEVEL = 'exploration'
RULE = ('images of every CAMx binary format (uamiv AVERAGE/EMISSIONS/INSTANT/'
        'AIRQUALITY, lateral boundary, land use old/new style, wind '
        'staggered/unstaggered/no flag, temperature, height/pressure, '
        'humidity, vertical diffusivity, generic one-3D, cloud/rain 3 and 5 '
        'variables) with nx != ny != nz, 1-4 steps of 1-24 h (uamiv/boundary '
        'also 30-100 h) from any date '
        '1970-2069 (stratified over midnight/year/leap/century edges), '
        'float32 payloads incl. denormals, -0.0, +-max; each image is read '
        'by the library (direction B) and, when read correctly, written '
        'back by the library writer and decoded by the independent decoder '
        '(direction A, also from hand-built sources; boundary-definition '
        'records judged against the CAMx convention); plus the ten sample '
        'files bundled with the library, judged against the independent '
        'decoder in both directions. non-trivial = the image has >= 2 cells per field; '
        'distinct = digest of the image spec.')
RULE += (" The gridded reader's TSTEP attribute must be the encoded length of the first averaging interval (steps ending on another day included).")
RULE += (' Species names include tagged variants beside their base (O3 and O3_A, O3_1_X, O3_1_X_Z) in gridded and boundary files; a quarter of the hand-built writer sources hold float64 variables.')
RULE += (' The begin / end dates of the file header of gridded and boundary files are compared with the first / last time record of the same file.')
ASSUMPTIONS = [
    'the reference codecs were written from the CAMx User\'s Guide record '
    'layouts; a misreading of the format documents shared with the '
    'library\'s author is out of reach (independence is of code)',
    'CAMx two-digit years are interpreted in the 1970-2069 window',
    'direction A starts from the library reader\'s view of the reference '
    'image and is only judged when direction B held for that image',
]
HOOKS = ['reader.return', 'writer.return', 'decoder.walk', 'oracle.compare']
MIN_DISTINCT = {'quick': 400, 'thorough': 6000}
N = {'quick': 800, 'thorough': 15000}
FACETS_REQUIRED = {t: ['fmt:' + f for f in refcamx.FORMATS] + ['dirA:ok']
                   for t in ('quick', 'thorough')}
JOBS = {'quick': 8}


SAMPLES = list(refcamx.FORMATS)


def ncases(tier):
    return N[tier] + len(SAMPLES)


def gen(rng, idx, tier, seed):
    if idx >= N[tier]:
        # the sample files bundled with the library (real model output,
        # 4 rows x 5 columns)
        return {'sample': SAMPLES[idx - N[tier]],
                'fmt': SAMPLES[idx - N[tier]], 'ny': 4, 'nx': 5}
    fmt = refcamx.FORMATS[idx % len(refcamx.FORMATS)]
    spec = refcamx.gen_spec(rng, fmt)
    if fmt in ('uamiv', 'lateral_boundary') and rng.random() < 0.25 and \
            spec['sdate'] // 1000 < 2069:
        # whole-hour steps of more than a day
        spec['dhour'] = int(rng.choice([30, 48, 72, 100]))
    # hand-built source whose NCOLS/NROWS/NLAYS attributes are stale
    spec['stale_attrs'] = bool(rng.random() < 0.3)
    if fmt == 'uamiv' and rng.random() < 0.2:
        # the same layout written on a little-endian machine, read with the
        # reader's endian keyword (direction B only)
        spec['little_endian'] = True
    return spec


def open_lib(fmt, path, spec, reader='Memmap'):
    from PseudoNetCDF.camxfiles import Memmaps, Readers
    mod = Memmaps if reader == 'Memmap' else Readers
    R = getattr(mod, fmt)
    if fmt == 'uamiv' and spec.get('little_endian') and reader == 'Memmap':
        return R(path, endian='little')
    if fmt == 'uamiv' and spec.get('open_mode') and reader == 'Memmap':
        return R(path, mode=spec['open_mode'])
    if fmt in ('uamiv', 'lateral_boundary'):
        return R(path)
    return R(path, spec['ny'], spec['nx'])


def compare_content(f, c, spec, res, who):
    """library file object vs expected content -> problems"""
    problems = []
    fmt = spec['fmt']
    for d, n in c['dims'].items():
        if d not in f.dimensions:
            problems.append('%s: dimension %s missing' % (who, d))
        elif len(f.dimensions[d]) != n:
            problems.append('%s: dimension %s = %d, encoded %d'
                            % (who, d, len(f.dimensions[d]), n))
    keys = list(f.variables.keys())
    for k, arr in c['vars'].items():
        res.hook('oracle.compare')
        if k not in keys:
            problems.append('%s: variable %s not exposed (has %s)'
                            % (who, k, keys[:8]))
            continue
        try:
            got = np.asarray(f.variables[k][...])
        except Exception as e:
            problems.append('%s: reading %s raised %r' % (who, k, e))
            continue
        if got.shape != arr.shape:
            problems.append('%s: %s shape %s, encoded %s'
                            % (who, k, got.shape, arr.shape))
        elif got.astype('f4').tobytes() != arr.tobytes():
            ne = got.astype('f4').view('u4') != arr.view('u4')
            i = tuple(np.argwhere(ne)[0])
            problems.append('%s: %s differs at %d cells, first %s: got %r '
                            'encoded %r' % (who, k, int(ne.sum()), i,
                                            got[i], arr[i]))
    if c['tflag']:
        try:
            tf = np.asarray(f.variables['TFLAG'][...])
            got = [(int(a), int(b)) for a, b in tf[:, 0, :]]
            if got != c['tflag']:
                problems.append('%s: TFLAG %s, encoded %s'
                                % (who, got[:4], c['tflag'][:4]))
        except Exception as e:
            problems.append('%s: TFLAG unreadable %r' % (who, e))
    if c.get('etflag'):
        try:
            tf = np.asarray(f.variables['ETFLAG'][...])
            got = [(int(a), int(b)) for a, b in tf[:, 0, :]]
            if got != c['etflag']:
                problems.append('%s: ETFLAG %s, encoded %s'
                                % (who, got[:4], c['etflag'][:4]))
        except Exception as e:
            problems.append('%s: ETFLAG unreadable %r' % (who, e))
    if fmt in ('uamiv', 'lateral_boundary'):
        h = c['header']
        for att, key in (('XORIG', 'xorg'), ('YORIG', 'yorg'),
                         ('XCELL', 'delx'), ('YCELL', 'dely'),
                         ('PLON', 'plon'), ('PLAT', 'plat'),
                         ('TLAT1', 'tlat1'), ('TLAT2', 'tlat2'),
                         ('ITZON', 'itzon'), ('CPROJ', 'iproj'),
                         ('ISTAG', 'istag'), ('IUTM', 'iutm')):
            if not hasattr(f, att):
                problems.append('%s: attribute %s missing' % (who, att))
            elif float(getattr(f, att)) != float(np.float32(h[key])):
                problems.append('%s: %s = %r, encoded %r'
                                % (who, att, getattr(f, att), h[key]))
        if str(f.NAME).strip() != h['name']:
            problems.append('%s: NAME %r, encoded %r' % (who, f.NAME,
                                                        h['name']))
        if fmt == 'uamiv' and who != 'Read' and hasattr(f, 'TSTEP') and \
                c['tflag'] and c.get('etflag'):
            # the step the reader states (what a converted IOAPI file will
            # carry) is the encoded length of the first averaging interval
            def _abs(dt):
                d_, t_ = dt
                return datetime.datetime(d_ // 1000, 1, 1) + \
                    datetime.timedelta(days=d_ % 1000 - 1,
                                       hours=t_ // 10000,
                                       minutes=t_ % 10000 // 100,
                                       seconds=t_ % 100)
            secs = int((_abs(c['etflag'][0]) - _abs(c['tflag'][0])
                        ).total_seconds())
            want = secs // 3600 * 10000 + secs % 3600 // 60 * 100 + secs % 60
            if int(f.TSTEP) != want:
                problems.append('%s: TSTEP attribute %r, the first step of '
                                'the image is %s -> %s (%d)'
                                % (who, f.TSTEP, c['tflag'][0],
                                   c['etflag'][0], want))
        vl = getattr(f, 'VAR-LIST')
        names = [vl[i:i + 16].strip() for i in range(0, len(vl), 16)]
        exp = list(c['vars'])
        if names != exp:
            problems.append('%s: species order %s, encoded %s'
                            % (who, names, exp))
    if fmt == 'wind' and c['header'].get('LSTAGGER') is not None:
        if int(f.LSTAGGER) != c['header']['LSTAGGER']:
            problems.append('%s: LSTAGGER %r, encoded %r'
                            % (who, f.LSTAGGER, c['header']['LSTAGGER']))
    return problems


def compare_decoded(d, c, spec, who):
    problems = []
    for dk, n in c['dims'].items():
        if d['dims'].get(dk) != n:
            problems.append('%s: decoded dimension %s = %s, written %d'
                            % (who, dk, d['dims'].get(dk), n))
    if list(d['vars']) != list(c['vars']) and (
            spec['fmt'] == 'landuse' or set(d['vars']) != set(c['vars'])):
        # record order is part of the land-use layout (the categories
        # record comes first)
        problems.append('%s: decoded variables %s, written %s'
                        % (who, list(d['vars']), list(c['vars'])))
    for k, arr in c['vars'].items():
        if k in d['vars']:
            g = d['vars'][k]
            if g.shape != arr.shape:
                problems.append('%s: %s decoded shape %s, written %s'
                                % (who, k, g.shape, arr.shape))
            elif g.tobytes() != arr.tobytes():
                ne = g.view('u4') != arr.view('u4')
                i = tuple(np.argwhere(ne)[0])
                problems.append('%s: %s decoded differs at %d cells, first '
                                '%s: %r vs %r' % (who, k, int(ne.sum()), i,
                                                  g[i], arr[i]))
    if c['tflag'] and d['tflag'] != c['tflag']:
        problems.append('%s: decoded times %s, written %s'
                        % (who, d['tflag'][:4], c['tflag'][:4]))
    if c.get('etflag') and d.get('etflag') != c['etflag']:
        problems.append('%s: decoded end times %s, written %s'
                        % (who, (d.get('etflag') or [])[:4],
                           c['etflag'][:4]))
    if spec['fmt'] == 'wind' and c['header'].get('LSTAGGER') is not None:
        if d['header'].get('LSTAGGER') != c['header']['LSTAGGER']:
            problems.append('%s: decoded stagger flag %r, written %r'
                            % (who, d['header'].get('LSTAGGER'),
                               c['header']['LSTAGGER']))
    if spec['fmt'] in ('uamiv', 'lateral_boundary'):
        for key in ('name', 'itzon', 'plon', 'plat', 'xorg', 'yorg', 'delx',
                    'dely', 'iproj', 'istag', 'tlat1', 'tlat2', 'iutm'):
            a, b = d['header'].get(key), c['header'][key]
            if isinstance(b, float):
                b = float(np.float32(b))
                a = float(np.float32(a)) if a is not None else None
            if a != b:
                problems.append('%s: header %s decoded %r, written %r'
                                % (who, key, a, b))
        # the dates of the file header are those of the content: it begins
        # with the first time record and ends with the last one
        hd = d['header']
        try:
            hb = (refcamx.full_date(hd['ibdate']),
                  int(round(hd['btime'])) * 10000)
            he = (refcamx.full_date(hd['iedate']),
                  int(round(hd['etime'])) * 10000)
        except Exception as e:
            hb = he = None
            problems.append('%s: file header dates (%r, %r) are no YYJJJ '
                            'dates: %s' % (who, hd.get('ibdate'),
                                           hd.get('iedate'), e))
        if hb is not None and d['tflag'] and hb != tuple(d['tflag'][0]):
            problems.append('%s: the file header begins %s, the first time '
                            'record %s' % (who, hb, tuple(d['tflag'][0])))
        if he is not None and d.get('etflag') and \
                he != tuple(d['etflag'][-1]):
            problems.append('%s: the file header ends %s, the last time '
                            'record ends %s' % (who, he,
                                                tuple(d['etflag'][-1])))
        if spec['fmt'] == 'lateral_boundary':
            want = [refcamx.bdef_cells(ie, spec['nx'], spec['ny'])
                    for ie in (1, 2, 3, 4)]
            if d.get('bdef') != want:
                problems.append('%s: boundary definition records %s; the '
                                'layout has the index of the adjacent '
                                'modelled cell, 0 at corners: %s'
                                % (who, d.get('bdef'), want))
        if d.get('names') != list(spec['names']):
            problems.append('%s: species names %s, written %s'
                            % (who, d.get('names'), spec['names']))
    return problems


def run_sample(spec, res):
    """bundled sample: independent decoder vs library reader (direction B),
    then library writer vs independent decoder (direction A)"""
    from PseudoNetCDF.pncgen import pncgen
    from PseudoNetCDF.testcase import camxfiles_paths
    fmt = spec['fmt']
    path = camxfiles_paths['vertical_diffusivity' if fmt == 'one3d'
                           else fmt]
    buf = open(path, 'rb').read()
    problems = []
    try:
        c = refcamx.decode(fmt, buf, spec['ny'], spec['nx'])
        res.hook('decoder.walk')
    except Exception as e:
        res.note('sample-not-decodable:%s' % fmt)
        res.ev(digest(spec), False, ['sample:' + fmt, 'undecodable'])
        return
    spec = dict(spec, names=c.get('names', []))
    try:
        with harness.step_budget(2000000):
            f = open_lib(fmt, path, spec)
            res.hook('reader.return')
            problems += compare_content(f, c, spec, res, 'reader(sample)')
        with harness.casedir() as d:
            out = os.path.join(d, 'out.' + fmt)
            o = pncgen(f, out, format=fmt, verbose=0)
            try:
                o.close()
            except Exception:
                pass
            res.hook('writer.return')
            wrote = open(out, 'rb').read()
        dec = refcamx.decode(fmt, wrote, spec['ny'], spec['nx'])
        res.hook('decoder.walk')
        for k, arr in c['vars'].items():
            g = dec['vars'].get(k)
            if g is None or g.shape != arr.shape or \
                    g.tobytes() != arr.tobytes():
                problems.append('writer(sample): variable %s of the written '
                                'file is not the sample\'s' % k)
        if dec['tflag'] != c['tflag'] or (c.get('etflag') and
                                          dec.get('etflag') != c['etflag']):
            problems.append('writer(sample): times %s / %s, sample %s / %s'
                            % (dec['tflag'][:3], (dec.get('etflag') or [])[:3],
                               c['tflag'][:3], (c.get('etflag') or [])[:3]))
        if fmt in ('uamiv', 'lateral_boundary') and \
                dec.get('names') != c.get('names'):
            problems.append('writer(sample): species %s, sample %s'
                            % (dec.get('names'), c.get('names')))
    except harness.StepBudgetExceeded as e:
        problems.append('reader did not terminate on the sample: %s' % e)
    except Exception as e:
        problems.append('sample %s: raised %r' % (fmt, e))
    res.ev(digest(spec), True, ['sample:' + fmt, 'dirA:ok'])
    if problems:
        res.viol('sample-differs:' + fmt, '%s sample: %s' % (
            fmt, '; '.join(problems[:4])), fmt=fmt, problems=problems[:8])


def run(spec, res):
    if spec.get('sample'):
        return run_sample(spec, res)
    from PseudoNetCDF.pncgen import pncgen
    fmt = spec['fmt']
    img = refcamx.encode(spec)
    if spec.get('little_endian'):
        img = refcamx.to_little_endian_uamiv(img)
    c = refcamx.content(spec)
    facets = ['fmt:' + fmt, 'nt:%d' % spec['nt']]
    if spec.get('little_endian'):
        facets.append('little-endian')
    ncell = spec['nx'] * spec['ny']
    dg = digest(spec)
    with harness.casedir() as d:
        path = os.path.join(d, 'img.' + fmt)
        with open(path, 'wb') as fh:
            fh.write(img)
        f = None
        try:
            with harness.step_budget(2000000):
                f = open_lib(fmt, path, spec)
                res.hook('reader.return')
                pb = compare_content(f, c, spec, res, 'reader')
        except harness.StepBudgetExceeded as e:
            res.hook('reader.return')
            pb = ['reader did not terminate: %s' % e]
        except Exception as e:
            res.hook('reader.return')
            pb = ['reader raised %r' % (e,)]
        res.ev(dg, ncell >= 2, facets)
        if pb:
            res.viol('reader-differs:%s' % fmt, '%s nt=%d nz=%d ny=%d nx=%d '
                     'start %d %02d: %s' % (fmt, spec['nt'], spec['nz'],
                                            spec['ny'], spec['nx'],
                                            spec['sdate'], spec['shour'],
                                            '; '.join(pb[:4])),
                     fmt=fmt, nt=spec['nt'], nz=spec['nz'],
                     problems=pb[:8], sdate=spec['sdate'],
                     shour=spec['shour'])
            res.facet('dirA:skipped')
            return
        # direction A
        out = os.path.join(d, 'out.' + fmt)
        try:
            o = pncgen(f, out, format=fmt, verbose=0)
            try:
                o.close()
            except Exception:
                pass
            res.hook('writer.return')
        except Exception as e:
            res.hook('writer.return')
            res.viol('writer-raised:%s:%s' % (fmt, type(e).__name__),
                     'writer %s raised %r' % (fmt, e), fmt=fmt,
                     excmsg=str(e)[:200])
            return
        with open(out, 'rb') as fh:
            wrote = fh.read()
        pa = []
        try:
            recs = refcamx.walk(wrote)
            res.hook('decoder.walk')
            dec = refcamx.decode(fmt, wrote, spec['ny'], spec['nx'],
                                 nvars=spec.get('nvars'),
                                 newstyle=spec.get('newstyle'))
            pa = compare_decoded(dec, c, spec, 'writer')
        except Exception as e:
            res.hook('decoder.walk')
            pa = ['bytes written by the library do not follow the layout: '
                  '%s' % (e,)]
        res.ev(digest([spec, 'A']), ncell >= 2, ['dirA:ok'])
        if pa:
            res.viol('writer-differs:%s' % fmt, '%s: %s' % (
                fmt, '; '.join(pa[:4])), fmt=fmt, problems=pa[:8],
                sdate=spec['sdate'], shour=spec['shour'], nt=spec['nt'])
            return
        # direction A again, from a file built with the public API (variables
        # created in a shuffled order, no reader-provided extras); the
        # hourly-step fallbacks of the uamiv/boundary writers are C08's
        from .c08 import build_direct
        out2 = os.path.join(d, 'out2.' + fmt)
        try:
            fd, c2 = build_direct(spec)
            o = pncgen(fd, out2, format=fmt, verbose=0)
            try:
                o.close()
            except Exception:
                pass
            res.hook('writer.return')
            wrote = open(out2, 'rb').read()
            refcamx.walk(wrote)
            res.hook('decoder.walk')
            dec = refcamx.decode(fmt, wrote, spec['ny'], spec['nx'],
                                 nvars=spec.get('nvars'),
                                 newstyle=spec.get('newstyle'))
            pa = compare_decoded(dec, c2, spec, 'writer(direct)')
        except Exception as e:
            pa = ['writing a hand-built %s file / decoding it failed: %r'
                  % (fmt, e)]
        res.ev(digest([spec, 'A2']), ncell >= 2, ['dirA:direct'])
        if pa:
            res.viol('writer-differs:%s:direct' % fmt, '%s: %s' % (
                fmt, '; '.join(pa[:4])), fmt=fmt, problems=pa[:8],
                sdate=spec['sdate'], shour=spec['shour'], nt=spec['nt'])
