"""C04 -- stacking concatenates in order and inverts splitting.

Monitor: call/return of stack (method) and stack_files; oracle: numpy
concatenation of the inputs' pre-state arrays, and the split/stack inverse
laws evaluated against bit-exact snapshots."""
import copy
import os

import numpy as np

from .. import gen_core, gen_ioapi, harness, readerfiles, snapshot
from ..cli import digest

PROP = 'C04'
LEVEL = 'exploration'
RULE = ('(a) concatenation law: 2-5 independently generated files that differ '
        'in payloads and in the length of the stacked dimension, stacked along '
        'every kind of axis (leading/non-leading, unlimited or not) by the '
        'stack method, stack_files, or - on netCDF pieces saved under names '
        'whose sorted order differs from argument order - pncmfopen / '
        'open_mfdataset; every in-memory stack is repeated with the same '
        'argument objects; (b) inverse law: a random partition of a '
        'dimension into 1..5 consecutive pieces cut with sliceDimensions, '
        'restacked, compared with the original (data, masks, dimension '
        'name->(length, unlimited), global and variable attributes), and each '
        'piece re-extracted from the stacked file; core and IOAPI (TSTEP) '
        'files. non-trivial = the stacked dimension is used by at least one '
        'variable and there are >= 2 pieces; distinct = digest of the spec.')
RULE += (" One case in sixteen splits and restacks the object one of the library's READERS returns for a valid image written by the independent codecs (CAMx memory-mapped and record readers, bpch1, bpch2, arlpackedbit, ffi1001) along a dimension drawn from the open file (TSTEP for IOAPI-class files).")
RULE += (' Pieces saved to disk and opened one by one are also handed to stack_files and to the stack method as open files.')
RULE += (' One plain receiver from disk in three is written with netCDF4 directly, as other tools write archive files (float data variables packed as int16 with scale_factor/add_offset, masks as _FillValue).')
ASSUMPTIONS = [
    'dimension dict order is not demanded (not named by the property)',
    'variables without the stacked dimension are compared with the first '
    'file only',
    'IOAPI wall-clock stamps CDATE/CTIME/WDATE/WTIME are excluded',
]
HOOKS = ['stack.return', 'oracle.compare']
MIN_DISTINCT = {'quick': 500, 'thorough': 6000}
N = {'quick': 1500, 'thorough': 25000}


def ncases(tier):
    return N[tier]


def partition(rng, n, maxk=5):
    if n == 0:
        return [0]
    k = int(rng.integers(1, min(maxk, n) + 1))
    cuts = sorted(rng.permutation(np.arange(1, n))[:k - 1].tolist())
    edges = [0] + cuts + [n]
    return [edges[i + 1] - edges[i] for i in range(len(edges) - 1)]


def gen(rng, idx, tier, seed):
    mode = ['concat', 'inverse', 'inverse', 'ioapi'][idx % 4]
    if idx % 16 == 13:
        # split and restack the object a library reader returns for a valid
        # image (dimension and pieces are drawn once it is open)
        return {'mode': 'reader',
                'file': {'reader': readerfiles.gen_spec(rng, idx=idx // 16)},
                'pseed': int(rng.integers(1 << 30))}
    if mode == 'ioapi':
        fs = gen_ioapi.gen_spec(rng, maxn=5)
        return {'mode': mode, 'file': fs,
                'parts': partition(rng, fs['nt'])}
    fs = gen_core.gen_filespec(rng)
    used = []
    for v in fs['vars']:
        for d in v['dims']:
            if d not in used:
                used.append(d)
    allnames = [d[0] for d in fs['dims']]
    dim = str(rng.choice(used if used and rng.random() < 0.9 else allnames))
    if mode == 'concat':
        k = int(rng.integers(2, 6))
        lens = [int(rng.integers(1, 5)) for _ in range(k)]
        seeds = [int(rng.integers(1 << 30)) for _ in range(k)]
        return {'mode': mode, 'file': fs, 'dim': dim, 'lens': lens,
                'seeds': seeds,
                'via': ['method', 'stack_files', 'method', 'pncmfopen',
                        'method', 'open_mfdataset', 'stack_files_disk',
                        'method_disk'][(idx // 4) % 8],
                # file names whose sorted order differs from argument order
                'labels': [int(x) for x in rng.permutation(12)[:k]],
                # one path given twice (a, b, a): every mention is a piece
                'repeat': bool(rng.random() < 0.3)}
    n = [d[1] for d in fs['dims'] if d[0] == dim][0]
    return {'mode': mode, 'file': fs, 'dim': dim,
            'parts': partition(rng, n)}


def piece_spec(fs, dim, ln, seed):
    ps = copy.deepcopy(fs)
    for d in ps['dims']:
        if d[0] == dim:
            d[1] = ln
    for i, v in enumerate(ps['vars']):
        if dim in v['dims']:
            v['seed'] = (v['seed'] + seed * (i + 1)) % (1 << 30)
            if v['kind'] != 'data':
                v['kind'] = 'data'
        elif (seed + i) % 2 == 0:
            # variables WITHOUT the stacked dimension may differ between the
            # files too (data and coordinate variables alike): the result
            # must hold the first file's
            v['seed'] = (v['seed'] + seed * (i + 3)) % (1 << 30)
    return ps


def run_concat(spec, res):
    from PseudoNetCDF.core._functions import stack_files
    dim = spec['dim']
    files = [gen_core.build(piece_spec(spec['file'], dim, ln, sd))
             for ln, sd in zip(spec['lens'], spec['seeds'])]
    snaps = [snapshot.snap_file(f) for f in files]
    if spec['via'] in ('pncmfopen', 'open_mfdataset', 'stack_files_disk',
                       'method_disk'):
        return run_concat_disk(spec, res, files, snaps)
    rest = files[1:]
    try:
        if spec['via'] == 'method':
            out = files[0].stack(rest, dim)
        else:
            out = stack_files(files, dim)
    except Exception as e:
        res.hook('stack.return')
        res.ev(digest(spec), True, ['concat', 'raised'])
        res.viol('in-domain-raise:%s' % type(e).__name__,
                 'stack of %d files along %s raised %r' % (len(files), dim,
                                                           e))
        return
    res.hook('stack.return')
    problems = judge_concat(res, out, snaps, dim)
    # the same pieces stacked again (same argument objects) must give the
    # same file: the call must not have consumed or altered its arguments
    again = []
    if len(rest) != len(files) - 1 or any(a is not b for a, b in zip(
            rest, files[1:])):
        again.append('the list passed to stack() was modified by the call '
                     '(%d -> %d entries)' % (len(files) - 1, len(rest)))
    try:
        if spec['via'] == 'method':
            out2 = files[0].stack(rest, dim)
        else:
            out2 = stack_files(files, dim)
        res.hook('stack.return')
        again += ['second stack of the same pieces: ' + x
                  for x in judge_concat(res, out2, snaps, dim)]
    except Exception as e:
        again.append('second stack of the same pieces raised %r' % (e,))
    res.ev(digest(spec), any(dim in v.dims for v in snaps[0].vars.values()),
           ['concat', 'via:' + spec['via'], 'files:%d' % len(files)])
    if problems:
        res.viol('wrong-concatenation', '; '.join(problems[:6]), dim=dim,
                 via=spec['via'])
    if again and not problems:
        res.viol('restack-differs', '; '.join(again[:6]), dim=dim,
                 via=spec['via'])


def run_concat_disk(spec, res, files, snaps0):
    """the multi-file open helpers on netCDF files on disk; reference =
    concatenation of what opening each path on its own gives"""
    import PseudoNetCDF as pnc
    from PseudoNetCDF.core._files import netcdf
    dim = spec['dim']
    with harness.casedir() as d, harness.handles() as h:
        paths = []
        try:
            foreign = spec['seeds'][0] % 3 == 0
            for f, lab in zip(files, spec['labels']):
                p = os.path.join(d, 'piece_%d.nc' % lab)
                if foreign:
                    # pieces as other tools write them (packed variables)
                    harness.write_foreign(f, p)
                else:
                    o = h.keep(f.save(p, format='NETCDF4', verbose=0))
                    o.close()
                paths.append(p)
            if foreign:
                res.facet('pieces:written-by-netCDF4-packed')
            snaps = []
            for p in paths:
                g = h.keep(pnc.pncopen(p, format='netcdf'))
                snaps.append(snapshot.snap_file(g))
                g.close()
            if spec.get('repeat'):
                paths.append(paths[0])
                snaps.append(snaps[0])
                res.facet('repeated-path')
        except Exception as e:
            res.note('disk-pieces-not-writable:%s' % type(e).__name__)
            res.ev(digest(spec), False, ['concat', 'disk-skip'])
            res.hook('stack.return', 0)
            return
        try:
            if spec['via'] in ('stack_files_disk', 'method_disk'):
                # the pieces are opened one by one and handed to the
                # functional form / the method as open files
                from PseudoNetCDF.core._functions import stack_files
                opened = [h.keep(pnc.pncopen(p, format='netcdf'))
                          for p in paths]
                if spec['via'] == 'stack_files_disk':
                    out = stack_files(opened, dim)
                else:
                    out = opened[0].stack(opened[1:], dim)
            elif spec['via'] == 'pncmfopen':
                out = h.keep(pnc.pncmfopen(paths, format='netcdf',
                                           stackdim=dim))
            else:
                out = h.keep(netcdf.open_mfdataset(*paths, stackdim=dim))
        except Exception as e:
            res.hook('stack.return')
            res.ev(digest(spec), True, ['concat', 'raised'])
            res.viol('in-domain-raise:%s' % type(e).__name__,
                     '%s of %d files along %s raised %r' % (
                         spec['via'], len(paths), dim, e), via=spec['via'])
            return
        res.hook('stack.return')
        problems = judge_concat(res, out, snaps, dim)
    res.ev(digest(spec), any(dim in v.dims for v in snaps[0].vars.values()),
           ['concat', 'via:' + spec['via'], 'files:%d' % len(files),
            'sorted-order-differs' if sorted(spec['labels'], key=str) !=
            list(spec['labels']) else 'sorted-order-same'])
    if problems:
        res.viol('wrong-concatenation', '%s(%s): %s' % (
            spec['via'], [os.path.basename(p) for p in paths],
            '; '.join(problems[:6])), dim=dim, via=spec['via'])


def judge_concat(res, out, snaps, dim):
    problems = []
    total = sum(len_of(s, dim) for s in snaps)
    if dim not in out.dimensions or len(out.dimensions[dim]) != total:
        problems.append('stacked dimension %s has length %s, expected %d'
                        % (dim, len(out.dimensions[dim])
                           if dim in out.dimensions else None, total))
    # every dimension keeps the record flag it has in the first file (the
    # stacked one included)
    for dk, (ln0, unl0) in snaps[0].dims.items():
        if dk in out.dimensions and bool(
                out.dimensions[dk].isunlimited()) != bool(unl0):
            problems.append('dimension %s: unlimited flag %s in the pieces, '
                            '%s in the stacked file' % (
                                dk, bool(unl0),
                                bool(out.dimensions[dk].isunlimited())))
    nontrivial = False
    for name, v0 in snaps[0].vars.items():
        if name not in out.variables:
            problems.append('variable %s missing' % name)
            continue
        got = snapshot.snap_var(out.variables[name])
        res.hook('oracle.compare')
        if dim in v0.dims:
            nontrivial = True
            ax = v0.dims.index(dim)
            data = np.concatenate([s.vars[name].data for s in snaps], axis=ax)
            anym = any(s.vars[name].mask is not None for s in snaps)
            mask = np.concatenate(
                [s.vars[name].mask if s.vars[name].mask is not None else
                 np.zeros(s.vars[name].shape, bool) for s in snaps],
                axis=ax) if anym else None
            problems += snapshot.check_var(got, name, dims=v0.dims, data=data,
                                           mask=mask, dtype=v0.dtype)
        else:
            problems += snapshot.check_var(got, name, dims=v0.dims,
                                           data=v0.data, mask=v0.mask,
                                           dtype=v0.dtype)
    return problems


def len_of(snap, dim):
    return snap.dims[dim][0]


def run_reader(spec, res):
    from .. import harness, ops
    rdr = spec['file']['reader']
    with harness.casedir() as d:
        f, status = readerfiles.open_reader(rdr, d)
        res.facet('reader:%s:%s' % (rdr['kind'], status.split(':')[0]))
        if f is None or snapshot.wellformed(f):
            # (a malformed reader file is C01's finding)
            res.note('reader-gave-no-file:' + status)
            return
        rng = np.random.default_rng([spec['pseed'], 79])
        ioapi = ops.is_ioapi(f)
        used = [k for k in ops.dims_used(f) if len(f.dimensions[k]) > 0 and
                k not in ('VAR', 'DATE-TIME', 'nv', 'tnv')]
        if ioapi:
            used = [k for k in used if k == 'TSTEP']
        if not used:
            return
        dim = str(rng.choice(used))
        parts = partition(rng, len(f.dimensions[dim]))
        res.facet('source:reader')
        run_inverse(dict(spec, parts=parts, dim=dim), res, f=f, ioapi=ioapi)


def run_inverse(spec, res, f=None, ioapi=None):
    if f is not None:
        dim = spec['dim']
    elif spec['mode'] == 'ioapi':
        ioapi = True
        f = gen_ioapi.build(spec['file'])
        dim = 'TSTEP'
    else:
        ioapi = False
        f = gen_core.build(spec['file'])
        dim = spec['dim']
    before = snapshot.snap_file(f)
    parts = spec['parts']
    edges = np.concatenate([[0], np.cumsum(parts)]).tolist()
    try:
        pieces = [f.sliceDimensions(**{dim: slice(edges[i], edges[i + 1])})
                  for i in range(len(parts))]
        psnaps = [snapshot.snap_file(p) for p in pieces]
        out = pieces[0].stack(pieces[1:], dim)
    except Exception as e:
        res.hook('stack.return')
        res.ev(digest(spec), True, ['inverse', 'raised'])
        res.viol('in-domain-raise:%s' % type(e).__name__,
                 'split %s of %s into %s and restack raised %r'
                 % (dim, before.dims.get(dim), parts, e), parts=parts,
                 ioapi=ioapi, excmsg=str(e)[:200])
        return
    res.hook('stack.return')
    after = snapshot.snap_file(out)
    problems = []
    if dict(before.dims) != dict(after.dims):
        problems.append('dimensions %s -> %s' % (dict(before.dims),
                                                 dict(after.dims)))
    ign = snapshot.IOAPI_STAMPS if ioapi else ()
    problems += [d for d in snapshot.diff_attrs(
        before.attrs, after.attrs, 'global ', exact_type=False, ignore=ign)
        if 'order' not in d and not (
            # files of the CAMx readers are IOAPI-class files without the
            # full IOAPI header: the class completes it (defaults) in every
            # result; nothing the source stated is changed by that
            ioapi and (spec['mode'] == 'reader' or
                       spec['file'].get('via') == 'uamiv') and
            d.endswith(' added') and
            d.split()[-2] in ('IOAPI_VERSION', 'EXEC_ID', 'NTHIK', 'HISTORY',
                              'UPNAM', 'FILEDESC', 'GDNAM', 'WDATE', 'WTIME',
                              'CDATE', 'CTIME', 'VGTYP', 'VGTOP', 'VGLVLS',
                              'FTYPE', 'NVARS', 'VAR-LIST'))]
    used = False
    for name, vs in before.vars.items():
        res.hook('oracle.compare')
        if name not in after.vars:
            problems.append('variable %s missing after restack' % name)
            continue
        if dim in vs.dims:
            used = True
        problems += snapshot.check_var(after.vars[name], name, dims=vs.dims,
                                       data=vs.data, mask=vs.mask,
                                       attrs=vs.attrs, dtype=vs.dtype)
    for name in after.vars:
        if name not in before.vars:
            problems.append('unexpected variable %s after restack' % name)
    # (iii) re-extract every piece
    for i, ps in enumerate(psnaps):
        try:
            again = snapshot.snap_file(out.sliceDimensions(
                **{dim: slice(edges[i], edges[i + 1])}))
        except Exception as e:
            problems.append('re-extracting piece %d raised %r' % (i, e))
            continue
        for name, vs in ps.vars.items():
            if name in again.vars:
                d = snapshot.check_var(again.vars[name], name, dims=vs.dims,
                                       data=vs.data, mask=vs.mask)
                problems += ['piece %d: %s' % (i, x) for x in d]
            else:
                problems.append('piece %d: variable %s missing' % (i, name))
    res.ev(digest(spec), used and len(parts) >= 2,
           ['ioapi' if ioapi else 'inverse', 'pieces:%d' % len(parts)])
    if problems:
        res.viol('split-stack-not-identity', '; '.join(problems[:6]),
                 parts=parts, ioapi=ioapi, dim=dim)


def run(spec, res):
    if spec['mode'] == 'reader':
        run_reader(spec, res)
    elif spec['mode'] == 'concat':
        run_concat(spec, res)
    else:
        run_inverse(spec, res)
