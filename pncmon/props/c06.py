"""C06 -- file arithmetic, eval and mask follow masked-array semantics.

Monitor: call/return of the operator dunders / pncbo, eval / pncexpr, mask;
oracle: the same operator / expression / numpy.ma predicates evaluated on
plain copies of the pre-state arrays."""
import copy
import operator as o

import numpy as np

from .. import gen_core, harness, readerfiles, refmask, snapshot
from ..cli import digest

PROP = 'C06'
LEVEL = 'exploration'
RULE = ('binop: pairs of conforming files (same structure, independent '
        'payloads, mixed int/float dtype pairs, masked operands, injected '
        '0, +-inf, nan, negative bases) x 13 operators, with and without '
        'declared coordinate variables, one case in four chained '
        '((a op b) op2 b); eval: 1-3 assignments from a small '
        'expression grammar over variables/attributes (method and pncexpr; '
        'an attribute may carry the name of a variable the expression reads)'
        '; mask: every subset of '
        'up to 3 predicates of {less, less_equal, greater, greater_equal, '
        'values, equal, invalid, where(+dims)} with coords on/off (method '
        'and mask_vals string form). '
        'non-trivial = at least one non-coordinate variable was judged; '
        'distinct = digest of the spec.')
RULE += (" One case in eight takes its operands from the library's READERS (the object a CAMx memory-mapped or record reader, bpch1, bpch2, arlpackedbit or ffi1001 returns for a valid image written by the independent codecs; second operand = its copy with other values): big-endian float32 data, +-max and denormal payloads, integer time flags; the time-flag variables of IOAPI-class files are the class's metadata and not judged here.")
RULE += (" Disk operands: in half of the cases the left operand's coordinate variables are stored packed (int16 + scale_factor/add_offset). One case in 24: an IOAPI file with unevenly spaced steps opened from disk (TFLAG a declared coordinate, judged as such).")
RULE += (' One receiver from disk in three (plain files) is written with netCDF4 directly, as other tools write archive files: float data variables packed (int16 with scale_factor/add_offset), masks as _FillValue; the oracle snapshots what the opened file delivers.')
ASSUMPTIONS = [
    'cells masked in either operand are a don\'t-care region for the result '
    'MASK (the property does not say input masks propagate) but an unmasked '
    'result there must still equal a op b on the underlying data',
    'when the reference expression itself raises in numpy the case is '
    'outside the domain',
    'unsigned variables are outside this check\'s generator (C01 finding '
    'C01-unsigned-fill covers them)',
    'value tolerance 16*eps of the result dtype',
]
HOOKS = ['binop.return', 'eval.return', 'pncexpr.return', 'mask.return',
         'mask_vals.return', 'oracle.compare']
FACETS_REQUIRED = {t: ['via:dunder', 'via:pncbo', 'via:eval', 'via:pncexpr',
                       'via:mask', 'via:mask_vals']
                   for t in ('quick', 'thorough')}
MIN_DISTINCT = {'quick': 800, 'thorough': 10000}
N = {'quick': 2500, 'thorough': 40000}
OPS = {'+': o.add, '-': o.sub, '*': o.mul, '/': o.truediv, '//': o.floordiv,
       '**': o.pow, '%': o.mod, '<': o.lt, '>': o.gt, '<=': o.le, '>=': o.ge,
       '==': o.eq, '!=': o.ne}
DT = ['f4', 'f8', 'i2', 'i4', 'i8']


def ncases(tier):
    return N[tier]


def gen(rng, idx, tier, seed):
    mode = ['binop', 'binop', 'mask', 'eval'][idx % 4]
    if idx % 24 == 20:
        # IOAPI file from disk (its TFLAG is a declared coordinate) whose
        # steps are not evenly spaced
        from .. import gen_ioapi
        ios = gen_ioapi.gen_spec(rng, kind='grid', via='from_arrays')
        ios['nt'] = int(rng.integers(4, 7))
        ios['masked'] = False
        fs = {'ioapi_irregular': ios}
        mode = 'binop'
    elif idx % 12 in (9, 10, 11) and (idx // 12) % 2 == 0:
        # the operands are what a library reader returns for a valid image
        fs = {'reader': readerfiles.gen_spec(rng, idx=idx // 24)}
        mode = ['binop', 'mask', 'eval'][idx % 12 - 9]
    else:
        fs = gen_core.gen_filespec(rng, dtypes=DT, allow_char=False)
    for v in fs.get('vars', []):
        if np.dtype(v['dtype']).kind == 'i':
            v['imax'] = 9
    spec = {'mode': mode, 'file': fs, 'seed': int(rng.integers(1 << 30))}
    if mode == 'binop':
        names = list(OPS)
        spec['op'] = names[(idx // 4) % len(names)]
        spec['via'] = 'dunder' if rng.random() < 0.8 else 'pncbo'
        spec['inject'] = bool(rng.random() < 0.6)
        spec['dtype_shift'] = bool(rng.random() < 0.4)
        spec['disk'] = bool(idx % 16 == 4)
        if 'reader' in fs or 'ioapi_irregular' in fs:
            spec['inject'] = spec['dtype_shift'] = spec['disk'] = False
        elif idx % 8 in (1, 5):
            # (a op b) op2 b: the intermediate result is the left operand
            spec['chain'] = names[int(rng.integers(len(names)))]
    elif mode == 'mask':
        opts = ['less', 'less_equal', 'greater', 'greater_equal', 'values',
                'equal', 'invalid', 'where']
        k = int(rng.integers(1, 4))
        chosen = [str(x) for x in rng.permutation(opts)[:k]]
        kw = {}
        for c in chosen:
            if c == 'invalid':
                kw[c] = True
            elif c == 'where':
                kw[c] = {'var': None, 'usedims': bool(rng.random() < 0.5),
                         'alias': bool(rng.random() < 0.3)}
            else:
                kw[c] = float(rng.choice([-3.0, 0.125, 1.0, 2.0, 4.5, 9.0]))
        spec['kw'] = kw
        spec['coords'] = bool(rng.random() < 0.25)
        spec['inject'] = bool(rng.random() < 0.4)
        if 'reader' in fs:
            spec['inject'] = False
        elif idx % 10 == 2:
            # the receiver is a file on disk (one in three written the way
            # other tools write: packed variables of 16 and 32 bits)
            spec['disk'] = True
        elif idx % 3 == 2 and 'where' not in kw:
            # command-line string form: one predicate per mask_vals call
            spec['via'] = 'mask_vals'
            spec['coords'] = False
    else:
        spec['nassign'] = int(rng.integers(1, 4))
        if idx % 3 == 0 and 'reader' not in fs:
            spec['via'] = 'pncexpr'
        # a global attribute with the name of a variable the expression reads
        spec['shadow'] = bool(rng.random() < 0.3)
    return spec


def timeflags(f):
    """the time-flag variables of IOAPI-class files (the CAMx readers are
    such): the class rebuilds them from its metadata after every operation
    (C10/C12), they are not data"""
    return {'TFLAG', 'ETFLAG'} if hasattr(f, 'updatemeta') else set()


def inject(f, seed):
    """put 0, inf, nan, negatives into float variables (in place, before the
    pre-state snapshot)"""
    rng = np.random.default_rng([seed, 9])
    for k in f.variables.keys():
        v = f.variables[k]
        if k in f.getCoords() or v.ndim == 0 or v.size == 0:
            continue
        flat = np.ma.getdata(v[...]).reshape(-1)
        n = flat.size
        specials = [0, 0, -1.5, 2] if np.dtype(v.dtype).kind == 'i' else \
            [0.0, 0.0, np.inf, -np.inf, np.nan, -2.5, 0.5]
        for s in specials:
            if rng.random() < 0.5:
                try:
                    flat[int(rng.integers(n))] = s
                except Exception:
                    pass


def second_spec(fs, seed, dtype_shift):
    g = copy.deepcopy(fs)
    rng = np.random.default_rng([seed, 3])
    for i, v in enumerate(g['vars']):
        if v['kind'] == 'data':
            v['seed'] = (v['seed'] * 7 + seed + i) % (1 << 30)
            if dtype_shift and rng.random() < 0.5:
                v['dtype'] = str(rng.choice(DT))
                if v['mask'] != 'none':
                    v['fill'] = -999
    return g


def second_of(a, seed):
    """a conforming second operand for a reader file: its copy with other
    values in every non-coordinate numeric variable"""
    b = a.copy()
    rng = np.random.default_rng([seed, 21])
    coords = set(a.getCoords())
    for k in b.variables.keys():
        v = b.variables[k]
        if k in coords or k.endswith('TFLAG') or v.ndim == 0 or \
                np.dtype(v.dtype).kind not in 'fi':
            continue
        if np.dtype(v.dtype).kind == 'f':
            v[...] = np.ma.getdata(v[...]) * float(rng.choice(
                [0.5, 1.5, -2.0, 3.0])) + float(rng.choice([0., 0.25, 1.]))
            flat = np.ma.getdata(v[...]).reshape(-1)
            if flat.size and flat.base is not None:
                flat[int(rng.integers(flat.size))] = 0.0
        else:
            v[...] = np.ma.getdata(v[...]) + int(rng.integers(0, 3))
    return b


def repack_coords(src, dst, names):
    """the netCDF file src written again as dst with the 1-D float variables
    `names` stored PACKED (int16 with scale_factor / add_offset), as archive
    files commonly store coordinates; everything else copied as it is"""
    import netCDF4
    done = []
    with netCDF4.Dataset(src) as i, netCDF4.Dataset(
            dst, 'w', format=i.data_model) as o:
        for k, dm in i.dimensions.items():
            o.createDimension(k, None if dm.isunlimited() else len(dm))
        o.setncatts({k: i.getncattr(k) for k in i.ncattrs()})
        for k, v in i.variables.items():
            atts = {a: v.getncattr(a) for a in v.ncattrs()
                    if a != '_FillValue'}
            pack = k in names and v.ndim == 1 and v.dtype.kind == 'f' and \
                v.shape[0] > 0 and not np.ma.is_masked(v[:])
            if pack:
                vals = np.asarray(v[:], 'f8')
                off = float(np.floor(vals.min()))
                if (vals.max() - off) / 0.25 > 30000:
                    pack = False
            if pack:
                ov = o.createVariable(k, 'i2', v.dimensions)
                ov.setncatts(atts)
                ov.scale_factor = np.float32(0.25)
                ov.add_offset = np.float32(off)
                ov[:] = vals
                done.append(k)
            else:
                fv = v.getncattr('_FillValue') if '_FillValue' in \
                    v.ncattrs() else None
                ov = o.createVariable(k, v.dtype, v.dimensions,
                                      fill_value=fv)
                ov.setncatts(atts)
                if v.shape == () or 0 not in v.shape:
                    ov[...] = v[...]
    return done


def run_binop(spec, res, a=None):
    from PseudoNetCDF.core._functions import pncbo
    if a is not None:
        b = second_of(a, spec['seed'])
    else:
        a = gen_core.build(spec['file'])
        b = gen_core.build(second_spec(spec['file'], spec['seed'],
                                       spec['dtype_shift']))
    if spec['inject']:
        inject(a, spec['seed'])
        inject(b, spec['seed'] + 1)
    coords = set(a.getCoords())
    if spec.get('disk'):
        # both operands are files on disk (saved, opened again)
        with harness.casedir() as d, harness.handles() as h:
            a2 = harness.to_disk(a, d, h, res=res, foreign=True, name='a.nc')
            b2 = harness.to_disk(b, d, h, res=res, foreign=True, name='b.nc')
            if a2 is not None and b2 is not None and spec['seed'] % 2 == 0:
                # the left operand's coordinate variables are stored packed
                # on disk (short integers with scale_factor / add_offset)
                try:
                    import os
                    import PseudoNetCDF as pnc
                    a2.close()
                    done = repack_coords(os.path.join(d, 'a.nc'),
                                         os.path.join(d, 'ap.nc'),
                                         set(coords) | set(a.dimensions))
                    a2 = h.keep(pnc.pncopen(os.path.join(d, 'ap.nc'),
                                            format='netcdf'))
                    if done:
                        res.facet('operands:disk-packed-coordinates')
                except Exception as e:
                    res.note('repack-failed:%s' % type(e).__name__)
                    a2 = h.keep(pnc.pncopen(os.path.join(d, 'a.nc'),
                                            format='netcdf'))
            if a2 is not None and b2 is not None:
                # (a file opened from disk declares its dimension-named
                # variables coordinates by itself)
                a2.setCoords(list(coords | set(a2.getCoords())))
                res.facet('operands:disk')
                binop_once(spec, res, a2, b2, spec['op'],
                           set(a2.getCoords()), pncbo, '')
                return
    mid = binop_once(spec, res, a, b, spec['op'], coords, pncbo, '')
    if mid is not None and spec.get('chain'):
        res.facet('chained')
        binop_once(spec, res, mid, b, spec['chain'], coords, pncbo,
                   'chained:')


def binop_once(spec, res, a, b, op, coords, pncbo, label):
    """one monitored a op b; returns the result file (None when the call
    raised or was out of domain)"""
    sa, sb = snapshot.snap_file(a), snapshot.snap_file(b)
    dg = digest([spec, label])
    # reference first: if numpy refuses the expression the call is outside
    # the domain
    ref = {}
    dom = True
    for k, va in sa.vars.items():
        if k in coords or k not in sb.vars:
            continue
        if va.data.dtype.kind in 'USO':
            # arithmetic is defined for numeric variables
            dom = False
            continue
        try:
            with np.errstate(all='ignore'):
                ref[k] = OPS[op](va.data, sb.vars[k].data)
        except Exception:
            dom = False
    try:
        if spec['via'] == 'dunder':
            out = OPS[op](a, b)
        else:
            out = pncbo(op, a, b)
    except Exception as e:
        res.hook('binop.return')
        res.ev(dg, True, ['op:' + op, 'raised'])
        if dom:
            res.viol('in-domain-raise:binop:%s' % type(e).__name__,
                     '%sa %s b raised %r' % (label, op, e), op=op,
                     excmsg=str(e)[:200], chained=bool(label))
        return None
    res.hook('binop.return')
    if not dom:
        res.ev(dg, False, 'out-of-domain-returned')
        return None
    problems = []
    judged = 0
    domain_leaks = []
    for k, va in sa.vars.items():
        if k in timeflags(a) and k not in coords:
            continue
        if k not in out.variables:
            problems.append('variable %s missing' % k)
            continue
        got = snapshot.snap_var(out.variables[k])
        res.hook('oracle.compare')
        if k in coords:
            problems += ['coordinate ' + x for x in snapshot.check_var(
                got, k, dims=va.dims, data=va.data, mask=va.mask,
                dtype=va.dtype)]
            continue
        if k not in sb.vars:
            # (CAMx reader files: the copy does not carry ETFLAG)
            continue
        vb = sb.vars[k]
        exp = np.asarray(ref[k])
        judged += 1
        if got.shape != exp.shape:
            problems.append('%s: shape %s expected %s' % (k, got.shape,
                                                         exp.shape))
            continue
        ma = va.mask if va.mask is not None else np.zeros(va.shape, bool)
        mb = vb.mask if vb.mask is not None else np.zeros(vb.shape, bool)
        both = ~(ma | mb)
        gm = got.mask if got.mask is not None else np.zeros(got.shape, bool)
        with np.errstate(all='ignore'):
            fin = np.isfinite(exp.astype('f8')) if exp.dtype.kind in 'fiub' \
                else np.ones(exp.shape, bool)
        if op in ('//', '%') and va.data.dtype.kind in 'iub' and \
                vb.data.dtype.kind in 'iub':
            # integer division by zero has no representable result (plain
            # numpy returns 0 with a warning, numpy.ma masks the cell):
            # neither outcome is demanded
            both = both & (vb.data != 0)
            gm = gm & (vb.data != 0)
            fin = fin | (vb.data == 0)
        # mask rule on cells where both operands are unmasked
        wrongmask = both & (gm != ~fin)
        # value rule wherever the result is unmasked
        chk = ~gm & fin
        if op in ('//', '%') and va.data.dtype.kind in 'iub' and \
                vb.data.dtype.kind in 'iub':
            chk = chk & (vb.data != 0)
        gd = got.data
        if exp.dtype.kind == 'b' or gd.dtype.kind == 'b':
            neq = chk & (gd.astype(bool) != exp.astype(bool))
        else:
            tol = 16 * np.finfo(exp.dtype if exp.dtype.kind == 'f'
                                else 'f8').eps
            with np.errstate(all='ignore'):
                neq = chk & ~np.isclose(gd.astype('f8'), exp.astype('f8'),
                                        rtol=tol, atol=0, equal_nan=True)
        unm_nonfinite = ~gm & ~fin
        if wrongmask.any() or neq.any() or (unm_nonfinite & both).any():
            # signature of the numpy.ma domain-mask leak: non-finite
            # reference, result unmasked and equal to the LEFT operand
            leak = both & ~fin & ~gm
            same_left = np.zeros(exp.shape, bool)
            with np.errstate(all='ignore'):
                same_left[leak] = (gd[leak].astype('f8') ==
                                   va.data[leak].astype('f8'))
            others = (wrongmask & ~leak) | neq | (leak & ~same_left)
            if leak.any() and not others.any() and (
                    va.masked_type or vb.masked_type):
                domain_leaks.append(k)
            else:
                i = tuple(np.argwhere(wrongmask | neq | (unm_nonfinite &
                                                         both))[0])
                problems.append(
                    '%s: at %s left=%r right=%r reference=%r got=%r '
                    'masked=%s (maskedtype operands: %s/%s)'
                    % (k, i, va.data[i], vb.data[i], exp[i], gd[i], gm[i],
                       va.masked_type, vb.masked_type))
    res.ev(dg, judged > 0, ['op:' + op, 'via:' + spec['via']])
    if domain_leaks:
        res.viol('masked-operand-domain-leak',
                 '%sa %s b: variables %s: cells whose reference result is '
                 'non-finite are left unmasked holding the LEFT operand\'s '
                 'value (operands are numpy.ma arrays)' % (label, op,
                                                           domain_leaks),
                 op=op, vars=domain_leaks, chained=bool(label))
    if problems:
        res.viol('wrong-arithmetic:' + op, label + '; '.join(problems[:5]),
                 op=op, chained=bool(label))
    return out


EXPRS = ['{a} * 2', '{a} + {b}', 'np.abs({a}) - 1.5', '{a} / 4.', '-{a}',
         'np.sqrt(np.abs({a}))', '{a} * {b} + {a}', '{a} ** 2',
         'np.where({a} > 1, {a}, 0)', '{a}[:] * 0 + ATTR',
         # values that are plain numpy.ma arrays (not file variables)
         'np.ma.masked_less({a}[...], 0.5) * 10',
         'np.ma.masked_greater(np.asarray({a}[...]), 1.) + {b}[...]']


def run_eval(spec, res, f=None):
    if f is None:
        f = gen_core.build(spec['file'])
    f.ATTR = 2.5
    rng = np.random.default_rng([spec['seed'], 11])
    tf = timeflags(f)
    names = [k for k in f.variables.keys()
             if np.dtype(f.variables[k].dtype).kind in 'fi' and
             f.variables[k].ndim > 0 and k.isidentifier() and k not in tf]
    if not names:
        res.ev(digest(spec), False, 'no-operands')
        res.hook('eval.return', 0)
        return
    a = str(rng.choice(names))
    same = [k for k in names
            if f.variables[k].dimensions == f.variables[a].dimensions]
    lines, targets = [], []
    for i in range(spec['nassign']):
        b = str(rng.choice(same))
        e = EXPRS[int(rng.integers(len(EXPRS)))].format(a=a, b=b)
        t = 'N%d' % i
        lines.append('%s = %s' % (t, e))
        targets.append(t)
    expr = '; '.join(lines)
    if spec.get('shadow'):
        # the file's arrays take precedence over a like-named attribute
        setattr(f, a, 3.25)
        res.facet('eval:attribute-shadows-variable')
    before = snapshot.snap_file(f)
    env = {k: np.ma.array(v.data.copy(), mask=None if v.mask is None
                          else v.mask.copy())
           if v.masked_type else v.data.copy()
           for k, v in before.vars.items()}
    env['ATTR'] = 2.5
    try:
        with np.errstate(all='ignore'):
            exec(compile(expr, 'ref', 'exec'), {'np': np}, env)
        dom = True
    except Exception:
        dom = False
    copyall = bool(rng.random() < 0.5)
    via = spec.get('via', 'eval')
    try:
        if via == 'pncexpr':
            from PseudoNetCDF.core._functions import pncexpr
            copyall = True
            out = pncexpr(expr, f)
            res.hook('pncexpr.return')
        else:
            out = f.eval(expr, copyall=copyall)
    except Exception as e:
        res.hook('eval.return')
        res.ev(digest([spec, expr]), True, 'eval-raised')
        if dom:
            res.viol('in-domain-raise:%s:%s' % (via, type(e).__name__),
                     '%s(%r) raised %r' % (via, expr, e), expr=expr, via=via)
        return
    res.hook('eval.return')
    if not dom:
        res.ev(digest([spec, expr]), False, 'out-of-domain-returned')
        return
    problems = []
    for t in targets:
        if t not in out.variables:
            problems.append('assigned variable %s missing' % t)
            continue
        got = snapshot.snap_var(out.variables[t])
        res.hook('oracle.compare')
        exp = env[t]
        ed = np.asarray(np.ma.getdata(exp))
        em = np.ma.getmaskarray(exp) if isinstance(exp, np.ma.MaskedArray) \
            else None
        with np.errstate(all='ignore'):
            nf = ~np.isfinite(ed.astype('f8'))
        # non-finite cells: value comparison is NaN-safe in check_var
        problems += snapshot.check_var(
            got, t, data=ed, mask=em,
            rtol=16 * np.finfo('f4' if ed.dtype == np.float32 else 'f8').eps)
    if copyall:
        for k, vs in before.vars.items():
            if k in out.variables and k not in targets and k not in tf:
                problems += snapshot.check_var(
                    snapshot.snap_var(out.variables[k]), k, dims=vs.dims,
                    data=vs.data, mask=vs.mask, dtype=vs.dtype)
    res.ev(digest([spec, expr]), True, ['eval', 'via:' + via,
                                       'nassign:%d' % len(targets)])
    if problems:
        res.viol('wrong-eval' if via == 'eval' else 'wrong-eval:' + via,
                 '%s(%r): %s' % (via, expr, '; '.join(problems[:5])),
                 expr=expr, via=via)


def run_mask(spec, res, f=None):
    if f is None:
        f = gen_core.build(spec['file'])
    if spec['inject']:
        inject(f, spec['seed'])
    before = snapshot.snap_file(f)
    coords = set(f.getCoords())
    kw = dict(spec['kw'])
    where = None
    wdims = None
    if 'where' in kw:
        wspec = kw.pop('where')
        cands = [k for k, v in before.vars.items()
                 if k not in coords and len(v.dims) > 0]
        if cands:
            rng = np.random.default_rng([spec['seed'], 13])
            wv = str(rng.choice(cands))
            wdims = before.vars[wv].dims
            where = rng.random(before.vars[wv].shape) < 0.4
            key = 'mask' if wspec['alias'] else 'where'
            kw[key] = where
            if wspec['usedims']:
                kw['dims'] = wdims
    refkw = {k: v for k, v in kw.items() if k in refmask.ORDER}
    dom = True
    exp = {}
    for k, vs in before.vars.items():
        if k in coords and not spec['coords']:
            continue
        w = None
        if where is not None:
            if 'dims' in kw:
                if tuple(vs.dims) == tuple(wdims):
                    w = where
            elif where.shape == vs.shape:
                w = where
        try:
            exp[k] = refmask.ref_mask(vs.data, vs.mask, refkw, where=w)
        except Exception:
            dom = False
    via = spec.get('via', 'mask')
    try:
        if via == 'mask_vals':
            from PseudoNetCDF.core import _functions as fnmod
            # the string form has its own notion of coordinate variables
            # (a fixed list of names); variables that are coordinates under
            # only one of the two notions are not judged
            skip = (set(fnmod._metakeys) | coords) - (
                set(fnmod._metakeys) & coords)
            coords = set(fnmod._metakeys) & set(before.vars)
            out = f
            for pk in [k for k in refmask.ORDER if k in refkw]:
                out = fnmod.mask_vals(out, '%s,%s' % (
                    pk, '' if pk == 'invalid' else repr(refkw[pk])))
                res.hook('mask_vals.return')
        else:
            skip = set()
            out = f.mask(coords=spec['coords'], **kw)
    except Exception as e:
        res.hook('mask.return')
        res.ev(digest(spec), True, 'mask-raised')
        if dom:
            res.viol('in-domain-raise:mask:%s' % type(e).__name__,
                     'mask(%s) raised %r' % (spec['kw'], e),
                     excmsg=str(e)[:200])
        return
    res.hook('mask.return')
    if not dom:
        res.ev(digest(spec), False, 'out-of-domain-returned')
        return
    problems = []
    badvars = []
    judged = 0
    for k, vs in before.vars.items():
        if k not in out.variables:
            problems.append('variable %s missing' % k)
            continue
        got = snapshot.snap_var(out.variables[k])
        res.hook('oracle.compare')
        if k in skip or k in timeflags(f):
            continue
        if k in coords and not spec['coords']:
            problems += ['coordinate ' + x for x in snapshot.check_var(
                got, k, dims=vs.dims, data=vs.data, mask=vs.mask)]
            continue
        judged += 1
        ed, em = exp[k]
        # unmasked values must be bit-identical to the INPUT values
        p = snapshot.check_var(got, k, dims=vs.dims, data=vs.data, mask=em)
        if p:
            badvars.append([k, vs.dtype, vs.masked_type])
        problems += p
    if via == 'mask' and not problems:
        # the same call on the same source once more: it must mask exactly
        # the same cells (the first call must not have left anything behind
        # in the source)
        try:
            out2 = f.mask(coords=spec['coords'], **kw)
            res.hook('mask.return')
            for k, vs in before.vars.items():
                if k in skip or (k in coords and not spec['coords']) or \
                        k not in out2.variables or k in timeflags(f):
                    continue
                ed, em = exp[k]
                p2 = snapshot.check_var(snapshot.snap_var(out2.variables[k]),
                                        k, dims=vs.dims, data=vs.data,
                                        mask=em)
                problems += ['second identical call: ' + x for x in p2]
        except Exception as e:
            problems.append('second identical call raised %r' % (e,))
    res.ev(digest(spec), judged > 0,
           ['mask:' + '+'.join(sorted(spec['kw'])), 'via:' + via])
    if problems:
        res.viol('wrong-mask' if via == 'mask' else 'wrong-mask:' + via,
                 '%s(%s, coords=%s): %s' % (
                     via, spec['kw'], spec['coords'],
                     '; '.join(problems[:5])),
                 kw=spec['kw'], badvars=badvars, via=via)


def run_ioapi_irregular(spec, res):
    import os
    import PseudoNetCDF as pnc
    from PseudoNetCDF.core._functions import pncbo
    from .. import gen_ioapi
    ios = spec['file']['ioapi_irregular']
    f0 = gen_ioapi.build(ios)
    keep = [0] + list(range(2, ios['nt']))
    with harness.casedir() as d, harness.handles() as h:
        try:
            cut = f0.sliceDimensions(TSTEP=keep)
            p = os.path.join(d, 'irr.nc')
            h.keep(cut.save(p, format='NETCDF4_CLASSIC', verbose=0)).close()
            a = h.keep(pnc.pncopen(p, format='ioapi'))
        except Exception as e:
            res.note('irregular-ioapi-unavailable:%s' % type(e).__name__)
            return
        coords = set(a.getCoords())
        if 'TFLAG' not in coords:
            res.note('TFLAG-not-a-coordinate')
            return
        res.facet('operands:ioapi-irregular-steps')
        b = second_of(a, spec['seed'])
        binop_once(spec, res, a, b, spec['op'], coords, pncbo, '')


def run(spec, res):
    if 'ioapi_irregular' in spec['file']:
        return run_ioapi_irregular(spec, res)
    rdr = spec['file'].get('reader')
    if rdr:
        with harness.casedir() as d:
            f, status = readerfiles.open_reader(rdr, d)
            res.facet('reader:%s:%s' % (rdr['kind'], status.split(':')[0]))
            if f is None or snapshot.wellformed(f):
                # (a malformed reader file is C01's finding)
                res.note('reader-gave-no-file:' + status)
                return
            res.facet('source:reader:' + spec['mode'])
            {'binop': run_binop, 'eval': run_eval,
             'mask': run_mask}[spec['mode']](spec, res, f)
        return
    if spec['mode'] == 'mask' and spec.get('disk'):
        with harness.casedir() as d, harness.handles() as h:
            f0 = gen_core.build(spec['file'])
            if spec['inject']:
                inject(f0, spec['seed'])
            g = harness.to_disk(f0, d, h, res=res, foreign=True)
            if g is not None:
                res.facet('mask:receiver-on-disk')
                return run_mask(dict(spec, inject=False), res, g)
    {'binop': run_binop, 'eval': run_eval, 'mask': run_mask}[spec['mode']](
        spec, res)
