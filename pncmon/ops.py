"""Random programs of public transformation operations.

A program is generated at run time from a seeded PRNG against the *current*
file (the output of step k is the input of step k+1), so arguments are always
drawn from the documented domain of the file actually at hand.  Each step
yields a Step record that the property monitors (C01, C05, C10) inspect.
"""
import os

import numpy as np

from . import refsel

REDUCERS = ['mean', 'sum', 'min', 'max', 'std', 'var', 'prod']
BINOPS = ['+', '-', '*', '/', '//', '**', '%', '<', '>', '<=', '>=', '==',
          '!=']


def _diff(a):
    return np.diff(a)


def _every2(a):
    return a[::2]


def _rev(a):
    return a[::-1]


def _conv_valid(a):
    return np.convolve(a, np.ones(2) / 2., mode='valid')


def _conv_same(a):
    return np.convolve(a, np.array([0.25, 0.5, 0.25]), mode='same')


def _cumsum(a):
    return np.cumsum(a)


CALLABLES = {'diff': (_diff, 2), 'every2': (_every2, 1), 'rev': (_rev, 1),
             'conv_valid': (_conv_valid, 2), 'conv_same': (_conv_same, 3),
             'cumsum': (_cumsum, 1)}


class Step:
    __slots__ = ('op', 'desc', 'inputs', 'in_domain', 'result', 'exc',
                 'receiver', 'meta')

    def __init__(self, op, desc, inputs, in_domain, meta=None):
        self.op = op
        self.desc = desc
        self.inputs = inputs
        self.in_domain = in_domain
        self.result = None
        self.exc = None
        self.meta = meta or {}


def timeflag(f, k):
    """begin/end time-flag variables of IOAPI-style files (TFLAG, and the
    ETFLAG the CAMx readers add): their VAR axis is metadata the class
    rebuilds, not data to compute with or to rename"""
    return is_ioapi(f) and k in ('TFLAG', 'ETFLAG')


def numeric_vars(f):
    out = []
    for k in f.variables.keys():
        if timeflag(f, k):
            continue
        v = f.variables[k]
        if np.dtype(v.dtype).kind in 'fiu':
            out.append(k)
    return out


def datavars(f):
    coords = set(f.getCoords())
    return [k for k in f.variables.keys() if k not in coords and
            not timeflag(f, k)]


def is_ioapi(f):
    return hasattr(f, 'updatemeta')


def dims_used(f):
    used = []
    for k in f.variables.keys():
        for d in f.variables[k].dimensions:
            if d not in used:
                used.append(d)
    return used


def all_numeric(f):
    return all(np.dtype(f.variables[k].dtype).kind in 'fiu'
               for k in f.variables.keys())


def has_unsigned(f):
    return any(np.dtype(f.variables[k].dtype).kind == 'u'
               for k in f.variables.keys())


def on_disk(f):
    """the file, or what it wraps, hands out netCDF4 variables"""
    import netCDF4
    if isinstance(f, netCDF4.Dataset):
        return True
    try:
        return any(isinstance(v, netCDF4.Variable)
                   for _, v in f.variables.items())
    except Exception:
        return False


def has_zero_dim(f):
    return any(len(d) == 0 for _, d in f.dimensions.items())


def int_pow_domain(f):
    """numpy itself refuses integer ** negative integer"""
    for k in f.variables.keys():
        v = f.variables[k]
        if np.dtype(v.dtype).kind in 'iu':
            a = np.ma.getdata(v[...])
            if a.size and (np.asarray(a) < 0).any():
                return False
    return True


def has_scalar(f):
    return any(len(f.variables[k].dimensions) == 0
               for k in f.variables.keys())


# -- op generators: (rng, f) -> (desc, thunk, extra_inputs, in_domain, meta)
def op_copy(rng, f):
    r = rng.random()
    if r < 0.6:
        return 'copy()', (lambda: f.copy()), [], True, {}
    if r < 0.8 or is_ioapi(f):
        # (partial skeleton copies of IOAPI files are building blocks, not
        # files: only full and data-less copies are driven there)
        return ('copy(data=False)', (lambda: f.copy(data=False)), [], True,
                {})
    if r < 0.9:
        return ('copy(variables=False)', (lambda: f.copy(variables=False)),
                [], True, {})
    return ('copy(props=False)', (lambda: f.copy(props=False)), [],
            not is_ioapi(f), {})


# per-check switches of the op generators (a worker serves one property)
OPTIONS = {'zipped': False}


def op_slice(rng, f, ioapi_window=False):
    dims = [(k, len(d)) for k, d in f.dimensions.items() if len(d) > 0]
    if is_ioapi(f):
        dims = [(k, n) for k, n in dims if k in ('TSTEP', 'LAY', 'ROW', 'COL',
                                                 'PERIM')]
    if not dims:
        return None
    # (a second pointwise selection would need another name for its new
    # dimension: POINTS is taken)
    zipped = OPTIONS['zipped'] and rng.random() < 0.3 and \
        'POINTS' not in f.dimensions
    if zipped:
        n = int(rng.integers(min(2, len(dims)), min(4, len(dims)) + 1))
    else:
        n = int(rng.integers(1, min(3, len(dims)) + 1))
    chosen = [dims[i] for i in rng.permutation(len(dims))[:n]]
    sel = {}
    nlist = 0
    ziplen = None
    for name, ln in chosen:
        kinds = ('i', 's', 'l') if nlist == 0 else ('i', 's')
        if zipped and nlist > 0 and rng.random() < 0.7:
            # a further index list of equal length: pointwise selection
            sel[name] = {'l': [int(x) for x in rng.integers(-ln, ln,
                                                            ziplen)]}
            nlist += 1
            continue
        if is_ioapi(f):
            # IOAPI: keep the result a regular grid: ints and unit slices,
            # plus index lists (one at most)
            s = refsel.gen_selector(rng, ln, kinds=kinds)
            if 's' in s and name == 'TSTEP' and s['s'][2] not in (None, 1):
                s['s'][2] = None     # time windows: forward, unit stride
            if 's' in s and refsel.sel_len(s, ln) == 0:
                s = {'s': [None, None, None]}
        else:
            s = refsel.gen_selector(rng, ln, kinds=kinds)
        if 'l' in s:
            nlist += 1
            ziplen = len(s['l'])
        sel[name] = s
    kw = {k: refsel.dec_sel(s) for k, s in sel.items()}
    return ('sliceDimensions(%s)' % sel, (lambda: f.sliceDimensions(**kw)),
            [], True, {'sel': sel, 'zipped': nlist > 1})


def op_points(f, sel):
    """pointwise selection: index lists of one length over two dimensions"""
    kw = {k: refsel.dec_sel(s) for k, s in sel.items()}
    return 'slice', ('sliceDimensions(%s)' % sel,
                     (lambda: f.sliceDimensions(**kw)), [], True,
                     {'sel': sel, 'zipped': True})


def op_apply(rng, f):
    dims = [(k, len(d)) for k, d in f.dimensions.items()
            if len(d) > 0 and k in dims_used(f)]
    if is_ioapi(f):
        dims = [(k, n) for k, n in dims if k in ('TSTEP', 'LAY', 'ROW',
                                                 'COL', 'PERIM')]
    if not dims or not all_numeric(f):
        return None
    n = 1 if rng.random() < 0.7 else 2
    chosen = [dims[i] for i in rng.permutation(len(dims))[:n]]
    kw = {}
    desc = {}
    for name, ln in chosen:
        if rng.random() < 0.7:
            r = str(rng.choice(REDUCERS))
            kw[name] = r
            desc[name] = r
        else:
            ok = [k for k, (fn, need) in CALLABLES.items() if ln >= need]
            if not ok:
                r = 'mean'
                kw[name] = r
                desc[name] = r
                continue
            c = str(rng.choice(ok))
            kw[name] = CALLABLES[c][0]
            desc[name] = 'callable:' + c
    dom = not (has_zero_dim(f) and any(
        v.startswith('callable') for v in desc.values()))
    return ('applyAlongDimensions(%s)' % desc,
            (lambda: f.applyAlongDimensions(**kw)), [], dom, {'apply': desc})


def op_stack(rng, f):
    dims = [k for k, d in f.dimensions.items() if k in dims_used(f)]
    if is_ioapi(f):
        dims = [k for k in dims if k == 'TSTEP']
    if not dims:
        return None
    d = str(rng.choice(dims))
    g = f.copy()
    # readers of CAMx files expose an end-time variable (ETFLAG) that derived
    # files do not carry: the copy is then not a conforming operand
    dom = set(f.variables.keys()) <= set(g.variables.keys())
    return ('stack(copy, %s)' % d, (lambda: f.stack(g, d)), [g], dom,
            {'stackdim': d})


def op_subset(rng, f):
    keys = [k for k in f.variables.keys()]
    if is_ioapi(f):
        keys = [k for k in keys if k != 'TFLAG']
    if not keys:
        return None
    n = int(rng.integers(1, len(keys) + 1))
    chosen = [keys[i] for i in sorted(rng.permutation(len(keys))[:n])]
    return ('subsetVariables(%s)' % chosen,
            (lambda: f.subsetVariables(list(chosen))), [], True,
            {'keys': chosen})


def op_renamevar(rng, f):
    keys = [k for k in f.variables.keys() if k not in f.dimensions]
    if is_ioapi(f):
        keys = [k for k in keys if not timeflag(f, k)]
    if not keys:
        return None
    old = str(rng.choice(keys))
    new = 'r' + old if len(old) < 12 else old[:6] + 'r'
    if new in f.variables:
        return None
    r = rng.random()
    if r < 0.4:
        return ('renameVariable(%s,%s)' % (old, new),
                (lambda: f.renameVariable(old, new)), [], True,
                {'old': old, 'new': new})
    if r < 0.72:
        return ('renameVariables(%s=%s)' % (old, new),
                (lambda: f.renameVariables(**{old: new})), [], True,
                {'old': old, 'new': new})
    if r < 0.86:
        # only the renamed variable is carried over
        return ('renameVariables(%s=%s,copyall=False)' % (old, new),
                (lambda: f.renameVariables(copyall=False, **{old: new})), [],
                True, {'old': old, 'new': new, 'copyall': False})
    # (a variable of the same dimensions that no metadata is read from)
    others = [k for k in keys if k != old and
              k not in ('time', 'time_bounds', 'TFLAG', 'ETFLAG') and
              tuple(f.variables[k].dimensions) ==
              tuple(f.variables[old].dimensions)]
    if not others:
        return None
    # onto the name of another variable, which it replaces
    tgt = str(rng.choice(others))
    return ('renameVariables(%s=%s) [existing name]' % (old, tgt),
            (lambda: f.renameVariables(**{old: tgt})), [], True,
            {'old': old, 'new': tgt, 'collide': True})


def op_renamedim(rng, f):
    if is_ioapi(f):
        return None   # IOAPI dimension names are fixed by the convention
    keys = [k for k in f.dimensions.keys()]
    if not keys:
        return None
    old = str(rng.choice(keys))
    new = 'n' + old
    if new in f.dimensions:
        return None
    return ('renameDimension(%s,%s)' % (old, new),
            (lambda: f.renameDimension(old, new)), [], True,
            {'old': old, 'new': new})


def op_insertdim(rng, f):
    if is_ioapi(f):
        return None
    if rng.random() < 0.25:
        # a dimension the file already has, at its own length: the variables
        # that lack it get it (newonly, the documented default)
        have = [k for k, dm in f.dimensions.items() if len(dm) >= 1]
        unl = [k for k in have if f.dimensions[k].isunlimited()]
        if have:
            dk = str(rng.choice(unl if unl and rng.random() < 0.7 else have))
            ln = len(f.dimensions[dk])
            return ('insertDimension(%s=%d) [existing dimension]' % (dk, ln),
                    (lambda: f.insertDimension(**{dk: ln})), [], True,
                    {'existing': dk})
    new = 'ins%d' % int(rng.integers(0, 3))
    if new in f.dimensions:
        return None
    ln = int(rng.choice([1, 1, 2, 3]))
    kw = {}
    desc = ''
    r = rng.random()
    dims = list(f.dimensions.keys())
    if dims and r < 0.3:
        kw['before'] = str(rng.choice(dims))
        desc = ',before=%s' % kw['before']
    elif dims and r < 0.6:
        kw['after'] = str(rng.choice(dims))
        desc = ',after=%s' % kw['after']
    if rng.random() < 0.2:
        kw['multionly'] = True
        desc += ',multionly'
    kw[new] = ln
    return ('insertDimension(%s=%d%s)' % (new, ln, desc),
            (lambda: f.insertDimension(**kw)), [], True, {})


def op_removesingleton(rng, f):
    if is_ioapi(f):
        return None
    ones = [k for k, d in f.dimensions.items() if len(d) == 1]
    key = None
    if ones and rng.random() < 0.5:
        key = str(rng.choice(ones))
    return ('removeSingleton(%s)' % key,
            (lambda: f.removeSingleton(dimkey=key)), [], True, {})


def op_reorder(rng, f):
    if is_ioapi(f):
        return None
    dims = list(f.dimensions.keys())
    if len(dims) < 2:
        return None
    new = [dims[i] for i in rng.permutation(len(dims))]
    return ('reorderDimensions(%s->%s)' % (dims, new),
            (lambda: f.reorderDimensions(dims, new)), [], True, {})


def op_mask(rng, f):
    if not all_numeric(f):
        return None
    if is_ioapi(f) and any(k in f.variables and k not in f.getCoords()
                           for k in ('time', 'time_bounds')):
        # masking would blank the CF time coordinate the file's time
        # metadata is read from: later time-dependent calls would be
        # outside their domain
        return None
    kw = {}
    opts = ['less', 'less_equal', 'greater', 'greater_equal', 'values',
            'equal', 'invalid']
    for o in rng.permutation(opts)[:int(rng.integers(1, 3))]:
        o = str(o)
        kw[o] = True if o == 'invalid' else float(rng.choice(
            [-3.0, 0.125, 2.0, 10.0, 100.0]))
    wdesc = None
    if rng.random() < 0.35:
        # a boolean `where` array shaped like one of the variables
        cands = [k for k in datavars(f) if f.variables[k].ndim > 0 and
                 f.variables[k].size > 0]
        if cands:
            wk = str(rng.choice(cands))
            wv = f.variables[wk]
            w = rng.random(wv.shape) < 0.4
            kw['mask' if rng.random() < 0.3 else 'where'] = w
            if rng.random() < 0.5:
                kw['dims'] = tuple(wv.dimensions)
            wdesc = wk
    dom = True
    # the documented delegates (numpy.ma.masked_*) themselves raise on some
    # inputs (e.g. masked_invalid on a 0-d masked value): such calls are
    # outside the domain
    from . import refmask
    for k in f.variables.keys():
        try:
            a = f.variables[k][...]
            refmask.ref_mask(np.ma.getdata(a), np.ma.getmaskarray(a),
                             {k_: v_ for k_, v_ in kw.items()
                              if k_ in refmask.ORDER[1:]})
        except Exception:
            dom = False
    desc = {k_: (v_ if k_ not in ('where', 'mask') else 'like:%s' % wdesc)
            for k_, v_ in kw.items()}
    return ('mask(%s)' % desc, (lambda: f.mask(**kw)), [], dom,
            {'mask': desc, 'unsigned': has_unsigned(f)})


def op_eval(rng, f):
    keys = [k for k in numeric_vars(f) if k.isidentifier()]
    if is_ioapi(f):
        keys = [k for k in keys if k != 'TFLAG']
    if not keys:
        return None
    a = str(rng.choice(keys))
    sc = len(f.variables[a].dimensions) == 0
    forms = ['NEW = %s * 2', 'NEW = %s + 1.5', 'NEW = np.abs(%s)']
    if not sc:
        forms.append('NEW = %s[:] * 0 + 3')
    if on_disk(f):
        # the variables of a file on disk are netCDF4 variables: an
        # expression reads their data with [...]
        forms = ['NEW = %s[...] * 2', 'NEW = %s[...] + 1.5',
                 'NEW = np.abs(%s[...])']
    expr = str(rng.choice(forms)) % a
    copyall = bool(rng.random() < 0.5)
    return ('eval(%r, copyall=%s)' % (expr, copyall),
            (lambda: f.eval(expr, copyall=copyall)), [], True,
            {'expr': expr, 'scalar_operand': sc,
             'plain_array_value': on_disk(f),
             'target_exists': 'NEW' in f.variables})


def cf_time_exposed(f):
    """IOAPI file whose CF time coordinate is an ordinary (non-coordinate)
    variable for mask()/arithmetic: those would blank or transform the values
    the file's time metadata is read from"""
    return is_ioapi(f) and any(k in f.variables and k not in f.getCoords()
                               for k in ('time', 'time_bounds'))


def op_arith(rng, f):
    if not all_numeric(f) or cf_time_exposed(f):
        return None
    op = str(rng.choice(BINOPS))
    g = f.copy()
    import operator as o
    fn = {'+': o.add, '-': o.sub, '*': o.mul, '/': o.truediv,
          '//': o.floordiv, '**': o.pow, '%': o.mod, '<': o.lt, '>': o.gt,
          '<=': o.le, '>=': o.ge, '==': o.eq, '!=': o.ne}[op]
    dom = True
    if op == '**':
        dom = int_pow_domain(f)
    return ('self %s copy' % op, (lambda: fn(f, g)), [g], dom,
            {'binop': op, 'unsigned': has_unsigned(f),
             'scalar': has_scalar(f)})


def op_interp(rng, f):
    if is_ioapi(f) or not all_numeric(f):
        return None
    cands = []
    for k in f.dimensions.keys():
        if k in f.variables and f.variables[k].dimensions == (k,) and \
                len(f.dimensions[k]) >= 2:
            cands.append(k)
    if not cands:
        return None
    d = str(rng.choice(cands))
    cv = f.variables[d][...]
    if isinstance(cv, np.ma.MaskedArray) and np.ma.getmaskarray(cv).any():
        return None
    old = np.asarray(cv, dtype='f8')
    dd = np.diff(old)
    if not np.isfinite(old).all() or not ((dd > 0).all() or (dd < 0).all()):
        return None
    lo, hi = float(old.min()), float(old.max())
    m = int(rng.integers(1, 5))
    new = np.sort(rng.uniform(lo, hi, m))
    if old[0] > old[-1]:
        new = new[::-1].copy()
    return ('interpDimension(%s, %d pts)' % (d, m),
            (lambda: f.interpDimension(d, new)), [], not has_zero_dim(f), {})


def op_interpsigma(rng, f):
    if not is_ioapi(f) or 'LAY' not in f.dimensions:
        return None
    old = np.asarray(f.VGLVLS, dtype='f8')
    if old.size < 2 or old.size != len(f.dimensions['LAY']) + 1:
        return None
    if not (np.diff(old) < 0).all() or has_zero_dim(f):
        return None
    m = int(rng.integers(1, 5))
    inner = np.sort(rng.uniform(old.min(), old.max(), m - 1))[::-1]
    new = np.concatenate([[old.max()], inner, [old.min()]])
    kind = str(rng.choice(['linear', 'conserve']))
    if rng.random() < 0.3 and hasattr(f, 'VGTOP'):
        # the rarely used model-top keyword (a lower top than the file's)
        vgtop = float(f.VGTOP) + float(rng.choice([1000., 2500.]))
        return ('interpSigma(%d levels, %s, vgtop=%g)' % (m, kind, vgtop),
                (lambda: f.interpSigma(new, vgtop=vgtop, interptype=kind)),
                [], True, {'vgtop': vgtop})
    return ('interpSigma(%d levels, %s)' % (m, kind),
            (lambda: f.interpSigma(new, interptype=kind)), [], True, {})


def op_save_ioapi(rng, f):
    """a query: write the file through the 'ioapi' writer; the program goes
    on with the same file (what the write leaves behind in the process is
    part of the history of everything constructed later)"""
    if not is_ioapi(f) or has_zero_dim(f):
        return None
    import tempfile
    from . import harness

    def thunk():
        d = tempfile.mkdtemp(dir=harness.tmproot())
        try:
            o = f.save(os.path.join(d, 'q.ioapi.nc'), format='ioapi',
                       verbose=0)
            try:
                o.close()
            except Exception:
                pass
        finally:
            import shutil
            shutil.rmtree(d, True)
        return f
    return ("save(format='ioapi')", thunk, [], True, {'query': True})


# -- functional forms of core/_functions.py (the pncgen/pncdump -s -r -c
# --expr ... options); they work on plain files only
def _plain(f):
    return not is_ioapi(f) and all(
        k.isidentifier() for k in f.variables.keys())


def op_fn_slice_dim(rng, f):
    from PseudoNetCDF.core._functions import slice_dim
    dims = [(k, len(d)) for k, d in f.dimensions.items() if len(d) > 0]
    if not dims or not _plain(f):
        return None
    name, ln = dims[int(rng.integers(len(dims)))]
    a = int(rng.integers(0, ln))
    b = int(rng.integers(a + 1, ln + 1))
    st = int(rng.choice([1, 1, 2]))
    form = int(rng.integers(3))
    sdef = ['%s,%d' % (name, a), '%s,%d,%d' % (name, a, b),
            '%s,%d,%d,%d' % (name, a, b, st)][form]
    return ('slice_dim(%r)' % sdef, (lambda: slice_dim(f, sdef)), [], True,
            {'slicedef': sdef})


def op_fn_reduce_dim(rng, f):
    from PseudoNetCDF.core._functions import reduce_dim
    # (not the vertex dimension of a CF bounds variable: reduce_dim treats
    # *_bounds variables as cell corners and reducing their corners away is
    # outside its domain)
    vertex = set()
    for k, v in f.variables.items():
        if ('_bounds' in k or '_bnds' in k) and len(v.dimensions) > 0:
            vertex.add(v.dimensions[-1])
            if len(v.dimensions) != 2 or v.shape[-1] < 2:
                # reduce_dim's corner handling is written for (dim, nv)
                # bounds variables with at least two corners (an earlier
                # step of the program may have reduced them away)
                return None
    dims = [k for k, d in f.dimensions.items() if len(d) > 0 and
            k in dims_used(f) and k not in vertex]
    if not dims or not _plain(f) or not all_numeric(f):
        return None
    name = str(rng.choice(dims))
    fn = str(rng.choice(['mean', 'sum', 'min', 'max', 'std']))
    rdef = '%s,%s' % (name, fn)
    return ('reduce_dim(%r)' % rdef, (lambda: reduce_dim(f, rdef)), [], True,
            {'reducedef': rdef})


def op_fn_convolve_dim(rng, f):
    from PseudoNetCDF.core._functions import convolve_dim
    dims = [(k, len(d)) for k, d in f.dimensions.items()
            if len(d) >= 3 and k in dims_used(f)]
    if not dims or not _plain(f) or not all_numeric(f) or has_zero_dim(f):
        return None
    name, ln = dims[int(rng.integers(len(dims)))]
    mode = str(rng.choice(['valid', 'same', 'full']))
    cdef = '%s,%s,0.25,0.5,0.25' % (name, mode)
    return ('convolve_dim(%r)' % cdef, (lambda: convolve_dim(f, cdef)), [],
            True, {'convolvedef': cdef})


def op_fn_getvarpnc(rng, f):
    from PseudoNetCDF.core._functions import getvarpnc
    keys = [k for k in f.variables.keys()]
    if not keys or not _plain(f):
        return None
    n = int(rng.integers(1, len(keys) + 1))
    chosen = [keys[i] for i in sorted(rng.permutation(len(keys))[:n])]
    return ('getvarpnc(%s)' % chosen, (lambda: getvarpnc(f, list(chosen))),
            [], True, {'keys': chosen})


def op_fn_removesingleton(rng, f):
    from PseudoNetCDF.core._functions import removesingleton
    ones = [k for k, d in f.dimensions.items() if len(d) == 1]
    if not ones or not _plain(f):
        return None
    key = str(rng.choice(ones))
    return ('removesingleton(f, %s)' % key,
            (lambda: removesingleton(f, key)), [], True, {})


def op_fn_pncrename(rng, f):
    from PseudoNetCDF.core._functions import pncrename
    if not _plain(f):
        return None
    if rng.random() < 0.5:
        keys = [k for k in datavars(f) if k not in f.dimensions]
        if not keys:
            return None
        old = str(rng.choice(keys))
        new = 'p' + old
        if new in f.variables:
            return None
        d = 'v,%s,%s' % (old, new)
    else:
        # (pncrename works on the data variables and the dimensions they
        # use; a dimension no data variable uses is not carried over)
        used = set()
        for k in datavars(f):
            used.update(f.variables[k].dimensions)
        keys = [k for k in f.dimensions.keys() if k not in f.variables and
                k in used]
        if not keys:
            return None
        old = str(rng.choice(keys))
        new = 'p' + old
        if new in f.dimensions:
            return None
        d = 'd,%s,%s' % (old, new)
    return ('pncrename(%r)' % d, (lambda: pncrename(f, d)), [], True,
            {'renamedef': d})


def op_fn_splitdim(rng, f):
    from PseudoNetCDF.core._functions import splitdim
    cands = [(k, len(d)) for k, d in f.dimensions.items()
             if len(d) in (4, 6) and k in dims_used(f)]
    if not cands or not _plain(f):
        return None
    name, ln = cands[int(rng.integers(len(cands)))]
    shape = (2, ln // 2)
    return ('splitdim(%s -> %s)' % (name, shape),
            (lambda: splitdim(f, name, ('sp_a', 'sp_b'), shape)), [],
            'sp_a' not in f.dimensions and 'sp_b' not in f.dimensions, {})


def op_fn_pncexpr(rng, f):
    from PseudoNetCDF.core._functions import pncexpr
    keys = [k for k in numeric_vars(f) if k.isidentifier() and
            f.variables[k].ndim > 0]
    if not keys or not _plain(f):
        return None
    a = str(rng.choice(keys))
    if on_disk(f):
        a = a + '[...]'
    expr = str(rng.choice(['XNEW = %s * 2', 'XNEW = %s + 1.5',
                           'XNEW = np.abs(%s)'])) % a
    return ('pncexpr(%r)' % expr, (lambda: pncexpr(expr, f)), [], True,
            {'expr': expr, 'plain_array_value': on_disk(f),
             'target_exists': 'XNEW' in f.variables})


def op_fn_merge(rng, f):
    from PseudoNetCDF.core._functions import merge
    if not _plain(f):
        return None
    g = f.copy()
    return ('merge([f, copy])', (lambda: merge([f, g])), [g], True, {})


def op_fn_stack_files(rng, f):
    from PseudoNetCDF.core._functions import stack_files
    dims = [k for k in f.dimensions.keys() if k in dims_used(f)]
    if not dims or not _plain(f):
        return None
    d = str(rng.choice(dims))
    g = f.copy()
    return ('stack_files([f, copy], %s)' % d,
            (lambda: stack_files([f, g], d)), [g], True, {})


FN_OPS = {
    'fn_slice_dim': op_fn_slice_dim, 'fn_reduce_dim': op_fn_reduce_dim,
    'fn_convolve_dim': op_fn_convolve_dim, 'fn_getvarpnc': op_fn_getvarpnc,
    'fn_removesingleton': op_fn_removesingleton,
    'fn_pncrename': op_fn_pncrename, 'fn_splitdim': op_fn_splitdim,
    'fn_pncexpr': op_fn_pncexpr, 'fn_merge': op_fn_merge,
    'fn_stack_files': op_fn_stack_files,
}

CORE_OPS = {
    'copy': op_copy, 'slice': op_slice, 'apply': op_apply, 'stack': op_stack,
    'subset': op_subset, 'renamevar': op_renamevar, 'renamedim': op_renamedim,
    'insertdim': op_insertdim, 'removesingleton': op_removesingleton,
    'reorder': op_reorder, 'mask': op_mask, 'eval': op_eval,
    'arith': op_arith, 'interp': op_interp, 'interpsigma': op_interpsigma,
}
# further operations a check may allow by name
EXTRA_OPS = {'save_ioapi': op_save_ioapi}


def run_program(f, prog_seed, nops, allowed=None, on_step=None, first=None):
    """Run up to nops random operations starting from f.  on_step(step, pre)
    is called around every operation: first with phase 'before' (returns an
    opaque pre-state), then with phase 'after'."""
    rng = np.random.default_rng([int(prog_seed), 4242])
    names = list(allowed or CORE_OPS.keys())
    table = dict(CORE_OPS)
    table.update(FN_OPS)
    table.update(EXTRA_OPS)
    cur = f
    trace = []
    for k in range(nops):
        made = None
        if k == 0 and first is not None:
            # a program that starts with a given operation
            name, made = first(cur)
        for _ in range(8 if made is None else 0):
            name = names[int(rng.integers(len(names)))]
            try:
                made = table[name](rng, cur)
            except Exception:
                # preparing the arguments (e.g. copying the current file to
                # obtain a conforming operand) failed: the operation is not
                # available on this file
                made = None
            if made is not None:
                break
        if made is None:
            break
        desc, thunk, extra, in_domain, meta = made
        st = Step(name, desc, [cur] + list(extra), in_domain, meta)
        trace.append(desc)
        pre = on_step('before', st, None) if on_step else None
        try:
            st.result = thunk()
        except Exception as e:
            st.exc = e
        if on_step:
            on_step('after', st, pre)
        if st.exc is not None or st.result is None or st.meta.get('stop'):
            break
        if not st.in_domain:
            # the call was outside the documented domain and returned
            # something: nothing is demanded of what follows
            break
        cur = st.result
    return trace
