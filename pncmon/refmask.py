"""Reference for mask(): the documented numpy.ma predicates in the documented
order (where, greater, greater_equal, less, less_equal, values, equal,
invalid) applied to a plain masked copy."""
import numpy as np

ORDER = ['where', 'greater', 'greater_equal', 'less', 'less_equal', 'values',
         'equal', 'invalid']


def ref_mask(data, mask, kw, where=None):
    a = np.ma.array(np.array(data, copy=True), mask=None if mask is None
                    else np.array(mask, copy=True))
    if where is not None:
        a = np.ma.masked_where(where, a)
    for k in ORDER[1:]:
        if k not in kw or kw[k] is None:
            continue
        if k == 'invalid':
            if kw[k]:
                a = np.ma.masked_invalid(a)
        else:
            a = getattr(np.ma, 'masked_' + k)(a, kw[k])
    return np.ma.getdata(a), np.ma.getmaskarray(a)
