"""Harness: import the library from the CURRENT tree, crash reporting,
logical-step budgets, wall-clock watchdog (inconclusive only), temp dirs."""
import collections
import contextlib
import faulthandler
import gc
import hashlib
import os

import numpy as np
import shutil
import signal
import subprocess
import sys
import tempfile
import warnings

REPO = os.path.realpath(os.environ.get('VERIF_REPO', '/repo'))
VERIF = os.path.dirname(os.path.dirname(os.path.abspath(__file__)))
_setup_done = False


def setup():
    """Make `import PseudoNetCDF` execute $VERIF_REPO/src as it stands now."""
    global _setup_done
    if _setup_done:
        return
    src = os.path.join(REPO, 'src')
    if sys.path[0] != src:
        sys.path.insert(0, src)
    try:
        faulthandler.enable()
    except Exception:
        pass
    warnings.simplefilter('always')
    warnings.showwarning = _record_warning
    os.environ.setdefault('MPLBACKEND', 'Agg')
    import numpy as np
    np.seterr(all='ignore')
    # the library prints a pyproj notice on stderr while importing
    olderr = sys.stderr
    try:
        sys.stderr = open(os.devnull, 'w')
        import PseudoNetCDF
    finally:
        try:
            sys.stderr.close()
        except Exception:
            pass
        sys.stderr = olderr
    got = os.path.realpath(PseudoNetCDF.__file__)
    if not got.startswith(src + os.sep):
        raise RuntimeError('PseudoNetCDF imported from %s, not from %s'
                           % (got, src))
    # the library re-enables warnings printing through its own wrapper
    import PseudoNetCDF.pncwarn as pw
    pw.clean_showwarning = _record_warning
    pw.std_showwarning = _record_warning
    warnings.showwarning = _record_warning
    _setup_done = True


WARN_LOG = collections.deque(maxlen=500)


def _record_warning(message, category, filename, lineno, file=None,
                    line=None):
    """Warnings are observations (C16: 'warned as requested'), not noise."""
    try:
        WARN_LOG.append((getattr(category, '__name__', str(category)),
                         str(message)))
    except Exception:
        pass


def tree_id():
    """HEAD + digest of the working-tree diff of the repository under test."""
    def run(*a):
        try:
            return subprocess.run(('git', '-C', REPO) + a, capture_output=True,
                                  timeout=60).stdout
        except Exception:
            return b''
    head = run('rev-parse', 'HEAD').decode().strip()
    diff = run('diff', 'HEAD', '--', 'src')
    return {'repo': REPO, 'head': head,
            'diff_sha1': hashlib.sha1(diff).hexdigest(),
            'dirty': bool(diff.strip())}


# ---------------------------------------------------------------------------
# logical step budget (termination decided on steps, not on wall clock)
class StepBudgetExceeded(BaseException):
    """BaseException so the library's `except Exception` cannot swallow it."""


class WallClockTimeout(BaseException):
    pass


class StepBudget:
    """Counts backward jumps (loop iterations) in code objects whose file is
    inside the library and raises StepBudgetExceeded past `limit`."""
    TOOL = 3

    def __init__(self):
        self.mon = sys.monitoring
        self.count = 0
        self.limit = None
        self.prefix = os.path.join(REPO, 'src') + os.sep
        self.active = False
        self._cache = {}

    def _jump(self, code, src, dst):
        if dst < src:
            ok = self._cache.get(code)
            if ok is None:
                ok = self._cache[code] = code.co_filename.startswith(
                    self.prefix)
            if not ok:
                return self.mon.DISABLE
            self.count += 1
            if self.limit is not None and self.count > self.limit:
                lim = self.limit
                self.limit = None
                raise StepBudgetExceeded(
                    'more than %d backward jumps inside the library (%s:%s)'
                    % (lim, code.co_filename[len(self.prefix):],
                       code.co_name))
        return None

    def arm(self, limit):
        if not self.active:
            try:
                self.mon.use_tool_id(self.TOOL, 'pncmon-steps')
            except ValueError:
                pass
            self.mon.register_callback(self.TOOL, self.mon.events.JUMP,
                                       self._jump)
            self.active = True
        # no restart_events(): DISABLE is only ever returned for code outside
        # the library, which never needs to be re-enabled
        self.count = 0
        self.limit = limit
        self.mon.set_events(self.TOOL, self.mon.events.JUMP)

    def disarm(self):
        if self.active:
            self.mon.set_events(self.TOOL, 0)
        self.limit = None
        return self.count


_budget = None


@contextlib.contextmanager
def step_budget(limit):
    """with step_budget(n) as b: ...   b.count is readable afterwards."""
    global _budget
    if _budget is None:
        _budget = StepBudget()
    _budget.arm(limit)
    try:
        yield _budget
    finally:
        _budget.disarm()


@contextlib.contextmanager
def wallclock(seconds):
    """Generous watchdog; firing means INCONCLUSIVE, never a violation."""
    def _h(signum, frame):
        raise WallClockTimeout('wall clock watchdog %ss' % seconds)
    old = signal.signal(signal.SIGALRM, _h)
    signal.alarm(int(seconds))
    try:
        yield
    finally:
        signal.alarm(0)
        signal.signal(signal.SIGALRM, old)


# ---------------------------------------------------------------------------
_tmproot = None


def tmproot():
    global _tmproot
    if _tmproot is None:
        base = os.environ.get('VERIF_TMP') or tempfile.gettempdir()
        _tmproot = tempfile.mkdtemp(prefix='pncmon-', dir=base)
        import atexit
        atexit.register(shutil.rmtree, _tmproot, True)
    return _tmproot


@contextlib.contextmanager
def casedir():
    d = tempfile.mkdtemp(dir=tmproot())
    try:
        yield d
    finally:
        shutil.rmtree(d, True)


class Handles:
    """Discipline for disk-backed objects: keep every object, close all, drop
    all, collect -- while no handle is live (see DESIGN 2, harness hygiene)."""

    def __init__(self):
        self.objs = []

    def keep(self, o):
        self.objs.append(o)
        return o

    def release(self):
        for o in self.objs:
            try:
                o.close()
            except BaseException:
                pass
        del self.objs[:]
        gc.collect()


@contextlib.contextmanager
def handles():
    was = gc.isenabled()
    gc.disable()
    h = Handles()
    try:
        yield h
    finally:
        h.release()
        if was:
            gc.enable()


def zlib_crc(text):
    import zlib
    return zlib.crc32(str(text).encode())


def write_foreign(f, path, strings=False, flavour='NETCDF4'):
    """the content of the in-memory file f written with netCDF4 directly, the
    way other tools write archive files: float data variables PACKED (int16
    with scale_factor / add_offset), masks as _FillValue.  What the file
    holds afterwards (packing is lossy) is what a check snapshots."""
    import netCDF4
    ds = netCDF4.Dataset(path, 'w', format=flavour)
    try:
        for k, dm in f.dimensions.items():
            ds.createDimension(k, None if dm.isunlimited() else len(dm))
        for k in f.ncattrs():
            ds.setncattr(k, getattr(f, k))
        coords = set(f.getCoords()) | set(f.dimensions.keys())
        for k in f.variables.keys():
            v = f.variables[k]
            a = v[...]
            dt = np.dtype(v.dtype)
            data = np.array(np.ma.getdata(a))
            masked = isinstance(a, np.ma.MaskedArray)
            # (plain numpy objects: netCDF4 reshapes what it is handed)
            a = np.ma.MaskedArray(data, mask=np.array(
                np.ma.getmaskarray(a)), fill_value=getattr(
                    a, 'fill_value', None)) if masked else data
            atts = {ak: v.getncattr(ak) if hasattr(v, 'getncattr')
                    else getattr(v, ak) for ak in v.ncattrs()
                    if ak not in ('_FillValue', 'fill_value')}
            pack = dt.kind == 'f' and v.ndim >= 1 and k not in coords and \
                data.size > 0 and np.isfinite(data).all() and \
                'scale_factor' not in atts and 'add_offset' not in atts
            if pack:
                # (a packed file states missing cells by _FillValue alone)
                atts.pop('missing_value', None)
                lo, hi = float(data.min()), float(data.max())
                sc = np.float32((hi - lo) / 60000.) if hi > lo else \
                    np.float32(1)
                off = np.float32((hi + lo) / 2.)
                # int16 storage delivers float32; int32 storage with float32
                # attributes delivers float64
                wide = zlib_crc('w' + k) % 3 == 0
                if wide:
                    sc = np.float32((hi - lo) / 2e9) if hi > lo else \
                        np.float32(1)
                nv = ds.createVariable(k, 'i4' if wide else 'i2',
                                       tuple(v.dimensions),
                                       fill_value=-2147483647 if wide
                                       else -32767)
                nv.setncatts(atts)
                nv.scale_factor = sc
                nv.add_offset = off
                nv[...] = a
            else:
                kw = {}
                if masked and dt.kind in 'fiu' and zlib_crc(k) % 2:
                    kw['fill_value'] = dt.type(getattr(a, 'fill_value', 0))
                # (else: no missing code of its own - netCDF4 stores its
                # default fill value for the masked cells)
                nv = ds.createVariable(k, 'S1' if dt.kind in 'SU' else dt,
                                       tuple(v.dimensions), **kw)
                nv.setncatts(atts)
                if v.ndim == 0 or 0 not in data.shape:
                    nv[...] = a
        if strings:
            # a netCDF string variable (station names, labels) on the first
            # dimension that has a length
            for k, dm in f.dimensions.items():
                if len(dm) > 0 and not dm.isunlimited() and \
                        'labels' not in f.variables:
                    sv = ds.createVariable('labels', str, (k,))
                    sv.long_name = 'labels along %s' % k
                    sv[:] = np.array(['label %d of %s' % (i, k) * (1 + i % 3)
                                      for i in range(len(dm))], dtype=object)
                    break
    finally:
        ds.close()


def to_disk(f, d, h, name='src.nc', fmt='netcdf', res=None, foreign=False):
    """Save the in-memory file f as NETCDF4 under directory d and open it
    again (handles kept in h).  -> the disk-backed file, or None when the
    file cannot be saved (saving is C07's business).  One plain file in
    three is written with netCDF4 directly instead (packed variables)."""
    import zlib
    import PseudoNetCDF as pnc
    try:
        path = os.path.join(d, name)
        key = repr([(k, len(dm)) for k, dm in f.dimensions.items()] +
                   list(f.variables.keys()))
        # (only for checks whose oracle snapshots the opened file: packing
        # is lossy)
        foreign = foreign and fmt == 'netcdf' and (
            foreign == 'always' or zlib.crc32(key.encode()) % 3 == 0)
        if foreign:
            try:
                write_foreign(f, path,
                              strings=zlib.crc32(key.encode()) % 9 == 0)
            except Exception:
                foreign = False
                if os.path.exists(path):
                    os.remove(path)
        if not foreign:
            h.keep(f.save(path, format='NETCDF4', verbose=0)).close()
        elif res is not None:
            res.facet('source:disk-written-by-netCDF4-packed')
        g = h.keep(pnc.pncopen(path, format=fmt))
        # an unlimited dimension no variable uses has length 0 on disk: then
        # the file on disk is another file than the one generated
        for k, dm in f.dimensions.items():
            if k not in g.dimensions or len(g.dimensions[k]) != len(dm):
                return None
        return g
    except Exception:
        return None



def run_suite_monitored(timeout=1800):
    """Runs the repository's own test suite (as found in $VERIF_REPO) with the
    pncmon.suiteplugin monitors on.  -> dict (counts, violations,
    monitor_errors, exitstatus) or None when the run produced nothing."""
    import json
    src = os.environ.get('VERIF_REPO', '/repo')
    # the suite leaves files next to its samples: run it on a scratch copy
    # of the current working tree
    repo = os.path.join(tmproot(), 'suite-tree-%d' % os.getpid())
    shutil.rmtree(repo, True)
    shutil.copytree(src, repo, ignore=shutil.ignore_patterns(
        '.git', '__pycache__', '*.check', '*.pyc'))
    out = os.path.join(tmproot(), 'suite-%d.json' % os.getpid())
    env = dict(os.environ, VERIF_SUITE_OUT=out,
               PYTHONPATH=os.pathsep.join(
                   [os.path.join(repo, 'src'), VERIF,
                    os.path.join(VERIF, '.deps')]))
    try:
        subprocess.run(
            [sys.executable, '-m', 'pytest', '-q', '-p', 'no:cacheprovider',
             '-p', 'pncmon.suiteplugin', '--timeout=900',
             '--continue-on-collection-errors'],
            cwd=repo, env=env, stdout=subprocess.DEVNULL,
            stderr=subprocess.DEVNULL, timeout=timeout)
        with open(out) as fh:
            return json.load(fh)
    except Exception:
        return None
    finally:
        shutil.rmtree(repo, True)
        try:
            os.remove(out)
        except OSError:
            pass
