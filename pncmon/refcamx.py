"""Independent CAMx binary codecs, written from the CAMx User's Guide record
layouts with struct (big-endian Fortran unformatted sequential records).
Nothing here imports or shares code, dtypes or helpers with the library.

A file spec (JSON-able):
  {fmt, nx, ny, nz, nt, names:[...], sdate:YYYYJJJ, shour:0..23, seed,
   name: 'AVERAGE'|..., variant: ...}
encode(spec) -> bytes ; content(spec) -> expected content ;
decode(fmt, bytes, rows, cols) -> decoded content (same structure).

content = {'vars': {name: float32 array}, 'dims': {...},
           'tflag': [(YYYYJJJ, HHMMSS)...], 'etflag': [...]| None,
           'header': {...}}
"""
import struct

import numpy as np

from . import gen_ioapi

MET1 = ('humidity', 'vertical_diffusivity', 'one3d')
FORMATS = ('uamiv', 'lateral_boundary', 'temperature', 'height_pressure',
           'humidity', 'vertical_diffusivity', 'one3d', 'wind', 'cloud_rain',
           'landuse')
VARNAME = {'humidity': 'HUM', 'vertical_diffusivity': 'KV',
           'one3d': 'UNKNOWN'}


# ---------------------------------------------------------------------------
def rec(payload):
    n = struct.pack('>i', len(payload))
    return n + payload + n


def walk(buf):
    """Fortran record walker: list of payloads; raises ValueError unless the
    records tile the buffer exactly with matching markers."""
    out = []
    pos = 0
    n = len(buf)
    while pos < n:
        if pos + 4 > n:
            raise ValueError('truncated leading marker at %d' % pos)
        ln, = struct.unpack('>i', buf[pos:pos + 4])
        if ln < 0 or pos + 8 + ln > n:
            raise ValueError('record at %d claims %d bytes beyond the file '
                             '(size %d)' % (pos, ln, n))
        tr, = struct.unpack('>i', buf[pos + 4 + ln:pos + 8 + ln])
        if tr != ln:
            raise ValueError('record at %d: leading marker %d != trailing '
                             'marker %d' % (pos, ln, tr))
        out.append(buf[pos + 4:pos + 4 + ln])
        pos += 8 + ln
    return out


def a4(text, n):
    """CAMx character*4 array: one character per 4-byte word"""
    t = text.ljust(n)[:n]
    return b''.join(ch.encode('ascii') + b'   ' for ch in t)


def un_a4(b):
    return b[0::4].decode('ascii')


def f32(a):
    return np.ascontiguousarray(a, dtype='>f4').tobytes()


def fromf32(b, shape):
    return np.frombuffer(b, dtype='>f4').reshape(shape).astype('f4')


# ---------------------------------------------------------------------------
def step_times(spec):
    """[(YYYYJJJ, hour)] for nt hourly steps + the end of each step"""
    out = []
    for i in range(spec['nt'] + 1):
        d, t = gen_ioapi.jd_add(spec['sdate'], spec['shour'] * 10000,
                                i * 3600 * int(spec.get('dhour', 1)))
        out.append((d, t // 10000))
    return out


def end_times(spec):
    """[(YYYYJJJ, hour)] end of each step.  With spec['eod24'] an end at
    midnight is written the CAMx way: hour 24 of the day that ends."""
    out = []
    for d, h in step_times(spec)[1:]:
        if spec.get('eod24') and h == 0:
            d = gen_ioapi.jd_add(d, 0, -86400)[0]
            h = 24
        out.append((d, h))
    return out


def field(spec, vi, shape):
    """distinct non-zero float32 payloads, optionally with hostile values"""
    rng = np.random.default_rng([int(spec['seed']), 1000 + vi])
    n = int(np.prod(shape))
    vals = (rng.permutation(n) + 1).astype('f8') * \
        [0.25, 1.5, 1e-3, 1e3][vi % 4] + (vi + 1) * 0.0625
    vals = vals.astype('f4')
    if spec.get('hostile'):
        sp = np.array([np.float32(1e-42), np.float32(-0.0),
                       np.finfo('f4').max, -np.finfo('f4').max,
                       np.finfo('f4').tiny], dtype='f4')
        for s in sp:
            if rng.random() < 0.5:
                vals[int(rng.integers(n))] = s
    return vals.reshape(shape)


def species_names(spec):
    return list(spec['names'])


def content(spec):
    fmt = spec['fmt']
    nx, ny, nz, nt = spec['nx'], spec['ny'], spec['nz'], spec['nt']
    st = step_times(spec)
    tflag = [(d, h * 10000) for d, h in st[:-1]]
    etflag = [(d, h * 10000) for d, h in end_times(spec)]
    c = {'vars': {}, 'tflag': tflag, 'etflag': None,
         'dims': {'TSTEP': nt, 'LAY': nz, 'ROW': ny, 'COL': nx}}
    if fmt == 'uamiv':
        for i, nm in enumerate(species_names(spec)):
            c['vars'][nm] = field(spec, i, (nt, nz, ny, nx))
        c['etflag'] = etflag
        c['header'] = header_values(spec)
    elif fmt == 'lateral_boundary':
        for i, nm in enumerate(species_names(spec)):
            for j, (edge, nc) in enumerate((('WEST', ny), ('EAST', ny),
                                            ('SOUTH', nx), ('NORTH', nx))):
                c['vars']['%s_%s' % (edge, nm)] = field(
                    spec, i * 4 + j, (nt, nc, nz))
        c['etflag'] = etflag
        c['header'] = header_values(spec)
    elif fmt == 'temperature':
        c['vars']['SURFTEMP'] = field(spec, 0, (nt, ny, nx))
        c['vars']['AIRTEMP'] = field(spec, 1, (nt, nz, ny, nx))
    elif fmt == 'height_pressure':
        c['vars']['HGHT'] = field(spec, 0, (nt, nz, ny, nx))
        c['vars']['PRES'] = field(spec, 1, (nt, nz, ny, nx))
    elif fmt in MET1:
        c['vars'][VARNAME[fmt]] = field(spec, 0, (nt, nz, ny, nx))
    elif fmt == 'wind':
        c['vars']['U'] = field(spec, 0, (nt, nz, ny, nx))
        c['vars']['V'] = field(spec, 1, (nt, nz, ny, nx))
        c['header'] = {'LSTAGGER': spec.get('lstagger')}
    elif fmt == 'cloud_rain':
        keys = ['CLOUD', 'RAIN', 'SNOW', 'GRAUPEL', 'COD'] \
            if spec.get('nvars', 5) == 5 else ['CLOUD', 'PRECIP', 'COD']
        for i, k in enumerate(keys):
            c['vars'][k] = field(spec, i, (nt, nz, ny, nx))
        c['header'] = {'FILEDESC': cloud_hdr(spec)}
    elif fmt == 'landuse':
        nl = spec.get('nland', 11)
        c['tflag'] = []
        c['dims'] = {'LANDUSE': nl, 'ROW': ny, 'COL': nx}
        keys = landuse_keys(spec)
        for i, (k, is3d) in enumerate(keys):
            c['vars'][k] = field(spec, i, (nl, ny, nx) if is3d else (ny, nx))
    else:
        raise ValueError(fmt)
    return c


def header_values(spec):
    rng = np.random.default_rng([int(spec['seed']), 7])
    iproj = int(spec.get('iproj', 2))
    h = {
        'name': spec.get('name', 'AVERAGE'),
        'note': spec.get('note', 'pncmon reference file'),
        'itzon': int(spec.get('itzon', 0)),
        'plon': float(np.float32(-97.0 + rng.integers(-3, 4))),
        'plat': 90.0 if iproj == 3 else float(
            np.float32(40.0 + rng.integers(-3, 4))),
        'iutm': 0,
        'xorg': float(np.float32(-1000.5 - rng.integers(0, 100))),
        'yorg': float(np.float32(-2000.25 + rng.integers(0, 100))),
        'delx': float(np.float32(12.0)), 'dely': float(np.float32(4.0)),
        'iproj': iproj, 'istag': int(spec.get('istag', 0)),
        'tlat1': float(np.float32(33.0)), 'tlat2': float(np.float32(45.0)),
    }
    # a caller may fix the grid (IOAPI-style receivers read through uamiv)
    for k in ('xorg', 'yorg', 'delx', 'dely'):
        if k in spec:
            h[k] = float(np.float32(spec[k]))
    return h


def cloud_hdr(spec):
    return spec.get('cldhdr', 'CAMx CLOUD_RAIN     ').ljust(20)[:20]


def landuse_keys(spec):
    nl = spec.get('nland', 11)
    nrec = spec.get('nrec', 2)
    if spec.get('newstyle'):
        keys = [('LUCAT%02d' % nl, True)]
        if nrec == 2:
            keys.append(('TOPO', False))
        elif nrec == 3:
            keys += [('LAI', False), ('TOPO', False)]
    else:
        keys = [('FLAND', True)]
        if nrec >= 2:
            keys.append(('TOPO', False))
    return keys


# ---------------------------------------------------------------------------
def bdef_cells(iedge, nx, ny):
    """CAMx boundary definition of one edge (1 W, 2 E, 3 S, 4 N): per cell
    the index of the modelled cell next to the boundary, 0 for the corner
    cells, which are not modelled"""
    ncell = ny if iedge in (1, 2) else nx
    inner = {1: 2, 2: nx - 1, 3: 2, 4: ny - 1}[iedge]
    return [0 if i in (0, ncell - 1) else inner for i in range(ncell)]


def yyjjj(d):
    return int(d) % 100000


def aq_header(spec, c):
    h = c['header']
    st = step_times(spec)
    nspec = len(spec['names'])
    r1 = a4(h['name'], 10) + a4(h['note'], 60) + struct.pack(
        '>iiifif', h['itzon'], nspec, yyjjj(st[0][0]), float(st[0][1]),
        yyjjj(end_times(spec)[-1][0]), float(end_times(spec)[-1][1]))
    r2 = struct.pack('>ffiffffiiiiifff', h['plon'], h['plat'], h['iutm'],
                     h['xorg'], h['yorg'], h['delx'], h['dely'], spec['nx'],
                     spec['ny'], spec.get('hdr_nz', spec['nz']), h['iproj'],
                     h['istag'],
                     h['tlat1'], h['tlat2'], 0.0)
    r3 = struct.pack('>iiii', 1, 1, spec['nx'], spec['ny'])
    r4 = b''.join(a4(n, 10) for n in spec['names'])
    return rec(r1) + rec(r2) + rec(r3) + rec(r4)


def swap_words(b):
    return np.frombuffer(b, '>u4').astype('<u4').tobytes()


def to_little_endian_uamiv(img):
    """the same gridded (uamiv) file as written on a little-endian machine:
    every 4-byte integer/real is byte-swapped, character data (one character
    per 4-byte word, left-justified) keep their byte order"""
    out = []
    for i, p in enumerate(walk(img)):
        if i == 0:
            q = p[:280] + swap_words(p[280:])          # name, note | numbers
        elif i in (1, 2):
            q = swap_words(p)
        elif i == 3:
            q = p                                      # species names
        elif len(p) == 16:
            q = swap_words(p)                          # time header
        else:
            q = swap_words(p[:4]) + p[4:44] + swap_words(p[44:])
        n = struct.pack('<i', len(q))
        out.append(n + q + n)
    return b''.join(out)


def encode(spec):
    fmt = spec['fmt']
    c = content(spec)
    nx, ny, nz, nt = spec['nx'], spec['ny'], spec['nz'], spec['nt']
    st = step_times(spec)
    et = end_times(spec)
    out = []
    if fmt == 'uamiv':
        out.append(aq_header(spec, c))
        for t in range(nt):
            out.append(rec(struct.pack('>ifif', yyjjj(st[t][0]),
                                       float(st[t][1]), yyjjj(et[t][0]),
                                       float(et[t][1]))))
            for nm in spec['names']:
                for k in range(nz):
                    out.append(rec(struct.pack('>i', 1) + a4(nm, 10) +
                                   f32(c['vars'][nm][t, k])))
    elif fmt == 'lateral_boundary':
        out.append(aq_header(spec, c))
        for iedge, ncell in enumerate((ny, ny, nx, nx), 1):
            body = struct.pack('>iii', 1, iedge, ncell)
            for ic in bdef_cells(iedge, nx, ny):
                body += struct.pack('>iiii', ic, 0, 0, 0)
            out.append(rec(body))
        for t in range(nt):
            out.append(rec(struct.pack('>ifif', yyjjj(st[t][0]),
                                       float(st[t][1]), yyjjj(et[t][0]),
                                       float(et[t][1]))))
            for nm in spec['names']:
                for iedge, edge in enumerate(('WEST', 'EAST', 'SOUTH',
                                              'NORTH'), 1):
                    out.append(rec(struct.pack('>i', 1) + a4(nm, 10) +
                                   struct.pack('>i', iedge) +
                                   f32(c['vars']['%s_%s' % (edge, nm)][t])))
    elif fmt == 'landuse':
        for k, is3d in landuse_keys(spec):
            if spec.get('newstyle'):
                out.append(rec(k.ljust(8).encode('ascii')))
            out.append(rec(f32(c['vars'][k])))
    elif fmt == 'cloud_rain':
        out.append(rec(cloud_hdr(spec).encode('ascii') +
                       struct.pack('>iii', nx, ny, nz)))
        keys = list(c['vars'])
        for t in range(nt):
            out.append(rec(struct.pack('>fi', float(st[t][1] * 100),
                                       yyjjj(st[t][0]))))
            for k in range(nz):
                for key in keys:
                    out.append(rec(f32(c['vars'][key][t, k])))
    else:
        for t in range(nt):
            hd = struct.pack('>fi', float(st[t][1] * 100), yyjjj(st[t][0]))
            if fmt == 'temperature':
                out.append(rec(hd + f32(c['vars']['SURFTEMP'][t])))
                for k in range(nz):
                    out.append(rec(hd + f32(c['vars']['AIRTEMP'][t, k])))
            elif fmt == 'height_pressure':
                for k in range(nz):
                    out.append(rec(hd + f32(c['vars']['HGHT'][t, k])))
                    out.append(rec(hd + f32(c['vars']['PRES'][t, k])))
            elif fmt in MET1:
                for k in range(nz):
                    out.append(rec(hd + f32(c['vars'][VARNAME[fmt]][t, k])))
            elif fmt == 'wind':
                ls = spec.get('lstagger')
                out.append(rec(hd + (struct.pack('>i', ls) if ls is not None
                                     else b'')))
                for k in range(nz):
                    out.append(rec(f32(c['vars']['U'][t, k])))
                    out.append(rec(f32(c['vars']['V'][t, k])))
                out.append(rec(struct.pack('>f', 0.0)))
            else:
                raise ValueError(fmt)
    return b''.join(out)


# ---------------------------------------------------------------------------
def full_date(yyjjj_, century_hint=None):
    """YYJJJ -> YYYYJJJ with the 1970-2069 window"""
    if not 0 <= yyjjj_ <= 99999 or not 1 <= yyjjj_ % 1000 <= 366:
        # the field is a two-digit year and a day of the year
        raise ValueError('date field %d is not YYJJJ' % yyjjj_)
    yy = yyjjj_ // 1000
    return (2000000 if yy < 70 else 1900000) + yyjjj_


def decode(fmt, buf, rows=None, cols=None, nvars=None, newstyle=None):
    """Independent decoder -> content structure (raises ValueError when the
    bytes do not follow the layout)."""
    recs = walk(buf)
    c = {'vars': {}, 'tflag': [], 'etflag': None, 'dims': {}, 'header': {}}
    if fmt in ('uamiv', 'lateral_boundary'):
        r1, r2, r3, r4 = recs[:4]
        if len(r1) != 40 + 240 + 24:
            raise ValueError('file header record has %d bytes' % len(r1))
        name, note = un_a4(r1[:40]), un_a4(r1[40:280])
        itzon, nspec, ibd, bt, ied, et = struct.unpack('>iiifif', r1[280:])
        (plon, plat, iutm, xorg, yorg, delx, dely, nx, ny, nz, iproj, istag,
         tlat1, tlat2, rdum) = struct.unpack('>ffiffffiiiiifff', r2)
        i1, i2, nx2, ny2 = struct.unpack('>iiii', r3)
        if (nx2, ny2) != (nx, ny):
            raise ValueError('grid record %s != cell record %s'
                             % ((nx, ny), (nx2, ny2)))
        if len(r4) != nspec * 40:
            raise ValueError('species record %d bytes for %d species'
                             % (len(r4), nspec))
        names = [un_a4(r4[i * 40:(i + 1) * 40]).strip()
                 for i in range(nspec)]
        nzz = max(nz, 1)
        c['header'] = dict(name=name.strip(), note=note.strip(), itzon=itzon,
                           plon=plon, plat=plat, iutm=iutm, xorg=xorg,
                           yorg=yorg, delx=delx, dely=dely, iproj=iproj,
                           istag=istag, tlat1=tlat1, tlat2=tlat2,
                           ibdate=ibd, btime=bt, iedate=ied, etime=et)
        c['dims'] = {'LAY': nzz, 'ROW': ny, 'COL': nx}
        c['names'] = names
        pos = 4
        if fmt == 'lateral_boundary':
            for iedge, ncell in enumerate((ny, ny, nx, nx), 1):
                b = recs[pos]
                one, ie, nc = struct.unpack('>iii', b[:12])
                if ie != iedge or nc != ncell or len(b) != 12 + 16 * ncell:
                    raise ValueError('boundary definition %d malformed'
                                     % iedge)
                c.setdefault('bdef', []).append(list(struct.unpack(
                    '>%di' % (4 * ncell), b[12:]))[::4])
                pos += 1
            per = 1 + nspec * 4
        else:
            per = 1 + nspec * nzz
        body = recs[pos:]
        if len(body) % per:
            raise ValueError('%d data records is not a multiple of %d'
                             % (len(body), per))
        nt = len(body) // per
        c['dims']['TSTEP'] = nt
        c['etflag'] = []
        store = {}
        for t in range(nt):
            blk = body[t * per:(t + 1) * per]
            ibd, bt, ied, et = struct.unpack('>ifif', blk[0])
            c['tflag'].append((full_date(ibd), int(round(bt)) * 10000))
            c['etflag'].append((full_date(ied), int(round(et)) * 10000))
            j = 1
            for nm in names:
                if fmt == 'uamiv':
                    for k in range(nzz):
                        b = blk[j]
                        j += 1
                        one, = struct.unpack('>i', b[:4])
                        if un_a4(b[4:44]).strip() != nm:
                            raise ValueError('record species %r, expected %r'
                                             % (un_a4(b[4:44]), nm))
                        store.setdefault(nm, np.zeros((nt, nzz, ny, nx),
                                                      'f4'))[t, k] = \
                            fromf32(b[44:], (ny, nx))
                else:
                    for iedge, (edge, nc) in enumerate(
                            (('WEST', ny), ('EAST', ny), ('SOUTH', nx),
                             ('NORTH', nx)), 1):
                        b = blk[j]
                        j += 1
                        if un_a4(b[4:44]).strip() != nm:
                            raise ValueError('record species mismatch')
                        ie, = struct.unpack('>i', b[44:48])
                        if ie != iedge:
                            raise ValueError('edge index %d, expected %d'
                                             % (ie, iedge))
                        store.setdefault('%s_%s' % (edge, nm), np.zeros(
                            (nt, nc, nzz), 'f4'))[t] = fromf32(b[48:],
                                                               (nc, nzz))
        c['vars'] = store
        return c
    if fmt == 'landuse':
        pos = 0
        first = True
        while pos < len(recs):
            key = None
            if len(recs[pos]) == 8 and newstyle is not False and all(
                    (65 <= ch <= 90) or (48 <= ch <= 57) or ch == 32
                    for ch in recs[pos]) and (
                        newstyle or recs[pos][:1].isalpha()):
                key = recs[pos].decode('ascii').strip()
                pos += 1
            b = recs[pos]
            pos += 1
            n2 = rows * cols * 4
            if len(b) == n2:
                arr = fromf32(b, (rows, cols))
                k = key or 'TOPO'
            elif len(b) % n2 == 0:
                nl = len(b) // n2
                arr = fromf32(b, (nl, rows, cols))
                k = key or 'FLAND'
                c['dims']['LANDUSE'] = nl
            else:
                raise ValueError('landuse record of %d bytes' % len(b))
            c['vars'][k] = arr
        c['dims'].update({'ROW': rows, 'COL': cols})
        return c
    ncell = rows * cols
    if fmt == 'cloud_rain':
        h = recs[0]
        hdr = h[:-12].decode('ascii')
        nx, ny, nz = struct.unpack('>iii', h[-12:])
        c['header'] = {'FILEDESC': hdr}
        rows, cols, ncell = ny, nx, nx * ny
        body = recs[1:]
        if nvars is None:
            for nv in (5, 3):
                per = 1 + nv * nz
                if len(body) % per == 0 and all(
                        len(body[i]) == (8 if i % per == 0 else ncell * 4)
                        for i in range(len(body))):
                    nvars = nv
                    break
            else:
                raise ValueError('cloud/rain: %d records do not frame as 3 '
                                 'or 5 variables' % len(body))
        per = 1 + nvars * nz
        if len(body) % per:
            raise ValueError('cloud/rain: %d records not multiple of %d'
                             % (len(body), per))
        nt = len(body) // per
        keys = ['CLOUD', 'RAIN', 'SNOW', 'GRAUPEL', 'COD'] if nvars == 5 \
            else ['CLOUD', 'PRECIP', 'COD']
        for k in keys:
            c['vars'][k] = np.zeros((nt, nz, ny, nx), 'f4')
        for t in range(nt):
            blk = body[t * per:(t + 1) * per]
            hh, dd = struct.unpack('>fi', blk[0])
            c['tflag'].append((full_date(dd), int(round(hh)) * 100))
            j = 1
            for k in range(nz):
                for key in keys:
                    c['vars'][key][t, k] = fromf32(blk[j], (ny, nx))
                    j += 1
        c['dims'] = {'TSTEP': nt, 'LAY': nz, 'ROW': ny, 'COL': nx}
        return c
    if fmt == 'wind':
        # header, then (u, v) per layer, then a one-word dummy record
        hsz = len(recs[0])
        if hsz not in (8, 12):
            raise ValueError('wind time header of %d bytes' % hsz)
        i = 1
        nlay2 = 0
        while i < len(recs) and len(recs[i]) == ncell * 4:
            nlay2 += 1
            i += 1
        if nlay2 == 0 or nlay2 % 2:
            raise ValueError('wind: %d level records in first step' % nlay2)
        nz = nlay2 // 2
        per = 2 + nlay2
        if len(recs) % per:
            raise ValueError('wind: %d records not multiple of %d'
                             % (len(recs), per))
        nt = len(recs) // per
        c['vars'] = {'U': np.zeros((nt, nz, rows, cols), 'f4'),
                     'V': np.zeros((nt, nz, rows, cols), 'f4')}
        for t in range(nt):
            blk = recs[t * per:(t + 1) * per]
            if len(blk[0]) != hsz or len(blk[-1]) != 4:
                raise ValueError('wind: step %d framing' % t)
            hh, dd = struct.unpack('>fi', blk[0][:8])
            if hsz == 12:
                c['header']['LSTAGGER'], = struct.unpack('>i', blk[0][8:])
            c['tflag'].append((full_date(dd), int(round(hh)) * 100))
            for k in range(nz):
                c['vars']['U'][t, k] = fromf32(blk[1 + 2 * k], (rows, cols))
                c['vars']['V'][t, k] = fromf32(blk[2 + 2 * k], (rows, cols))
        c['dims'] = {'TSTEP': nt, 'LAY': nz, 'ROW': rows, 'COL': cols}
        return c
    # temperature / height_pressure / one-3D family: every record carries
    # (time, date, field)
    heads = []
    fields = []
    for b in recs:
        if len(b) != 8 + ncell * 4:
            raise ValueError('%s record of %d bytes, expected %d'
                             % (fmt, len(b), 8 + ncell * 4))
        hh, dd = struct.unpack('>fi', b[:8])
        heads.append((full_date(dd), int(round(hh)) * 100))
        fields.append(fromf32(b[8:], (rows, cols)))
    # records of one time step share the header
    groups = []
    for h, f in zip(heads, fields):
        if groups and groups[-1][0] == h:
            groups[-1][1].append(f)
        else:
            groups.append((h, [f]))
    sizes = {len(g[1]) for g in groups}
    if len(sizes) != 1:
        raise ValueError('%s: steps with different record counts %s'
                         % (fmt, sorted(sizes)))
    per = sizes.pop()
    nt = len(groups)
    c['tflag'] = [g[0] for g in groups]
    if fmt == 'temperature':
        nz = per - 1
        c['vars']['SURFTEMP'] = np.array([g[1][0] for g in groups], 'f4')
        c['vars']['AIRTEMP'] = np.array([g[1][1:] for g in groups],
                                        'f4').reshape(nt, nz, rows, cols)
    elif fmt == 'height_pressure':
        if per % 2:
            raise ValueError('height/pressure: odd record count per step')
        nz = per // 2
        c['vars']['HGHT'] = np.array([g[1][0::2] for g in groups], 'f4')
        c['vars']['PRES'] = np.array([g[1][1::2] for g in groups], 'f4')
    else:
        nz = per
        c['vars'][VARNAME[fmt]] = np.array([g[1] for g in groups], 'f4')
    c['dims'] = {'TSTEP': nt, 'LAY': nz, 'ROW': rows, 'COL': cols}
    return c


# ---------------------------------------------------------------------------
def gen_spec(rng, fmt=None, maxn=5, maxt=4, small=False):
    fmt = fmt or str(rng.choice(FORMATS))
    hi = 4 if small else maxn + 1
    # distinct nx != ny != nz so that a transposition changes the answer
    dims = rng.permutation(np.arange(1, hi + 2))[:3]
    nx, ny, nz = int(dims[0]), int(dims[1]), int(dims[2])
    nt = int(rng.integers(1, maxt + 1))
    if maxt >= 4 and not small and rng.random() < (
            0.25 if fmt == 'wind' else 0.08):
        # many steps (on these small grids the per-step size is small, so
        # size-based step counting is sensitive to every byte per step)
        nt = int(rng.integers(6, 31))
        if rng.random() < 0.5:
            nz = 1
    nsp = int(rng.integers(1, 5))
    pool = ['O3', 'NO2', 'NO', 'CO', 'PAR', 'ISOP', 'NO2X', 'ABCDEFGHIJ',
            'PM25', 'O']
    names = [str(x) for x in rng.permutation(pool)[:nsp]]
    r = rng.random()
    if r < 0.5:
        year = int(rng.integers(1970, 2070))
        jjj = int(rng.integers(1, 366))
        sdate = year * 1000 + jjj
    else:
        sdate = int(rng.choice([1999365, 2000366, 2004060, 2003059, 2069364,
                                1970001, 2000001, 1999364, 2068366, 2024059,
                                2023365]))
    shour = int(rng.choice([0, 0, 12, 21, 22, 23, int(rng.integers(24))]))
    dhour = int(rng.choice([1, 1, 1, 1, 3, 6, 12, 24]))
    if sdate // 1000 == 2069 and sdate % 1000 + (nt * dhour + shour) // 24 \
            > 364:
        dhour = 1      # stay inside the 1970-2069 two-digit-year window
        if sdate % 1000 + (nt + shour) // 24 > 364:
            sdate = 2069001
    spec = {'fmt': fmt, 'nx': nx, 'ny': ny, 'nz': nz, 'nt': nt,
            'names': names, 'sdate': sdate, 'shour': shour, 'dhour': dhour,
            'seed': int(rng.integers(1 << 30)),
            'hostile': bool(rng.random() < 0.3)}
    if fmt == 'uamiv':
        spec['name'] = str(rng.choice(['AVERAGE', 'EMISSIONS', 'INSTANT',
                                       'AIRQUALITY']))
        spec['iproj'] = int(rng.choice([0, 1, 2, 2, 3]))
        spec['itzon'] = int(rng.integers(0, 9))
    elif fmt == 'lateral_boundary':
        spec['name'] = 'BOUNDARY'
        spec['iproj'] = int(rng.choice([0, 1, 2, 2]))
    elif fmt == 'wind':
        spec['lstagger'] = [None, 0, 1][int(rng.integers(3))]
    elif fmt == 'cloud_rain':
        spec['nvars'] = int(rng.choice([5, 5, 3]))
        # the format carries no variable count: readers tell the old
        # 3-variable layout from the 5-variable one by the file size.  A
        # 3-variable file whose data size is also a whole number of
        # 5-variable steps is ambiguous by construction: not generated.
        ts = {n: n * spec['nz'] * (spec['nx'] * spec['ny'] + 2) * 4 + 16
              for n in (3, 5)}
        while spec['nvars'] == 3 and (spec['nt'] * ts[3]) % ts[5] == 0:
            spec['nt'] += 1
        if spec['nvars'] == 5 and rng.random() < 0.3:
            # a 5-variable file whose size is ALSO a whole number of
            # 3-variable steps: the documented reading is the contemporary
            # 5-variable one
            import math
            k = ts[3] // math.gcd(ts[3], ts[5])
            if k <= 30:
                spec['nt'] = k
            else:
                # tiny grids on which the two layouts can coincide in size
                nx_, ny_, nz_, nt_ = [(2, 1, 1, 2), (2, 2, 2, 5),
                                      (1, 2, 3, 5), (2, 3, 1, 7),
                                      (2, 1, 1, 4)][int(rng.integers(5))]
                spec.update(nx=nx_, ny=ny_, nz=nz_, nt=nt_)
    elif fmt == 'landuse':
        spec['nt'] = 1
        spec['newstyle'] = bool(rng.random() < 0.5)
        spec['nland'] = 11 if not spec['newstyle'] else int(
            rng.choice([11, 26]))
        spec['nrec'] = int(rng.integers(1, 4)) if spec['newstyle'] else int(
            rng.integers(1, 3))
    if fmt not in ('landuse', 'cloud_rain') and rng.random() < 0.06:
        # a share of the files has steps on BOTH sides of the boundary of the
        # two-digit-year centuries (99365 -> 00001), whatever else was drawn
        spec['sdate'] = 1999365
        spec['shour'] = int(rng.choice([21, 22, 23]))
        spec['dhour'] = int(rng.choice([1, 1, 3]))
        spec['nt'] = max(spec['nt'], 3)
    # (format-specific step counts may have changed nt) stay inside the
    # 1970-2069 two-digit-year window
    if spec['sdate'] // 1000 == 2069 and spec['sdate'] % 1000 + (
            spec['nt'] * spec['dhour'] + spec['shour']) // 24 > 364:
        spec['sdate'] = 2069001
    if fmt in ('uamiv', 'lateral_boundary'):
        # tagged species beside their untagged base (O3 and O3_A, PM_10 and
        # PM_10_X): names with the separator the boundary keys also use
        r2 = np.random.default_rng([spec['seed'], 77])
        if r2.random() < 0.15:
            base = spec['names'][0][:4]
            tag = base + '_' + str(r2.choice(['A', '10', '1_X']))
            if len(spec['names']) > 1:
                spec['names'][-1] = tag
            else:
                spec['names'].append(tag)
            if r2.random() < 0.4 and len(spec['names']) < 4:
                spec['names'].append(tag + '_Z')
            if r2.random() < 0.5:
                # the species list is not sorted: a tagged name may stand
                # BEFORE the name it extends (O3_A, O3)
                spec['names'][0] = base
                spec['names'] = spec['names'][::-1]
    return spec
