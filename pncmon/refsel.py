"""Independent reference for per-dimension (orthogonal / zipped) selection."""
import numpy as np


def dec_sel(s):
    """JSON selector -> python object used in the call"""
    if 'i' in s:
        return int(s['i'])
    if 's' in s:
        return slice(*s['s'])
    if 'l' in s:
        return list(s['l'])
    if 'a' in s:
        return np.array(s['a'], dtype='i8')
    raise ValueError(s)


def kind(s):
    return next(iter(s))


def is_list(s):
    return kind(s) in ('l', 'a')


def sel_len(s, n):
    if 'i' in s:
        return 1
    if 's' in s:
        return len(range(*slice(*s['s']).indices(n)))
    return len(s['l'] if 'l' in s else s['a'])


def gen_selector(rng, n, kinds=('i', 's', 'l')):
    k = str(rng.choice(list(kinds)))
    if k == 'i':
        return {'i': int(rng.integers(-n, n))}
    if k == 's':
        def ep():
            r = rng.random()
            if r < 0.3:
                return None
            if r < 0.85:
                return int(rng.integers(-n - 1, n + 2))
            return int(rng.choice([-n - 5, n + 5]))
        step = [None, 1, 1, 2, -1, -2, 3][int(rng.integers(7))]
        return {'s': [ep(), ep(), step]}
    m = int(rng.integers(1, 4))
    return {'l': [int(x) for x in rng.integers(-n, n, m)]}


def ref_select(data, mask, vdims, sel, file_list_dims, newdim='POINTS'):
    """sel: dict dim -> JSON selector.  Returns (dims, data, mask)."""
    vdims = list(vdims)
    mylists = [d for d in vdims if d in sel and is_list(sel[d])]
    zipped = len(file_list_dims) > 1 and len(mylists) > 1

    def apply(arr):
        for ax, d in enumerate(vdims):
            if d not in sel:
                continue
            s = sel[d]
            if 'i' in s:
                arr = np.take(arr, [s['i']], axis=ax)
            elif 's' in s:
                arr = arr[(slice(None),) * ax + (slice(*s['s']),)]
            elif not zipped:
                arr = np.take(arr, list(s.get('l', s.get('a'))), axis=ax)
        if zipped:
            axes = [vdims.index(d) for d in mylists]
            first = axes[0]
            L = len(sel[mylists[0]].get('l', sel[mylists[0]].get('a')))
            pieces = []
            for i in range(L):
                p = arr
                for ax in axes:
                    lst = sel[vdims[ax]].get('l', sel[vdims[ax]].get('a'))
                    p = np.take(p, [lst[i]], axis=ax)
                for ax in sorted(axes[1:], reverse=True):
                    p = np.squeeze(p, axis=ax)
                pieces.append(p)
            arr = np.concatenate(pieces, axis=first)
        return arr

    odata = apply(np.asarray(data))
    omask = None if mask is None else apply(np.asarray(mask))
    if zipped:
        first = vdims.index(mylists[0])
        odims = [newdim if i == first else d for i, d in enumerate(vdims)
                 if i == first or d not in mylists]
    else:
        odims = vdims
    return tuple(odims), odata, omask
