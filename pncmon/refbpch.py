"""Independent GEOS-Chem binary punch (bpch v2, 'CTM bin 02') codec and
tracerinfo.dat / diaginfo.dat writers, from the GEOS-Chem/GAMAP format
description.  Shares no code with the library."""
import struct

import numpy as np

from .refcamx import rec, walk


def gen_spec(rng, small=False):
    ncat = int(rng.integers(1, 4))
    cats = ['IJ-AVG-$', 'PEDGE-$', 'DAO-FLDS', 'BXHGHT-$'][:ncat]
    offsets = [0, 1000, 2000, 3000]
    pool = ['NOx', 'Ox', 'PAN', 'CO', 'ALK4', 'ISOP', 'HNO3', 'H2O2',
            'PSURF', 'TS', 'BXHEIGHT', 'AD']
    tracers = []
    names = iter(rng.permutation(pool).tolist())
    ni = int(rng.integers(2, 4 if small else 6))
    nj = int(rng.integers(1, 3 if small else 5))
    i0 = int(rng.integers(1, 20))
    j0 = int(rng.integers(1, 20))
    for ci in range(ncat):
        nt_ = int(rng.integers(1, 3 if small else 5))
        ids = sorted(rng.permutation(np.arange(1, 9))[:nt_].tolist())
        # make offset + id collide with another category's raw id
        if ci == 0 and ncat > 1 and rng.random() < 0.5:
            ids.append(1000 + int(rng.integers(1, 9)))
        for tid in ids:
            tracers.append({
                'cat': ci, 'id': int(tid), 'name': (str(next(
                    names, 'T%d' % (tid + ci * 10)))[:7] + (
                        '' if tid < 1000 else 'X'))[:8],
                'nl': int(rng.integers(1, 3 if small else 5)),
                'scale': float(rng.choice([1.0, 1e9, 1e12, 0.5, 1e-3, -1.0,
                                           -2.5e-3])),
                'unit': str(rng.choice(['ppbv', 'hPa', 'K', 'm', 'kg',
                                        'molec/cm2/s'])),
                'molwt': float(rng.choice([4.6e-2, 4.8e-2, 2.8e-2, 1.2e-2])),
                'carbon': int(rng.choice([1, 1, 2, 4])),
                'baseunit': str(rng.choice(['v/v', 'hPa', 'K', 'unitless'])),
                'k0': int(rng.integers(1, 4)) if rng.random() < 0.3 else 1,
            })
    # a tracer table must not hold two rows with the same number
    seen = set()
    uniq = []
    for tr in tracers:
        num = offsets[tr['cat']] + tr['id']
        if num in seen:
            continue
        seen.add(num)
        uniq.append(tr)
    tracers = uniq
    # sometimes a block has no row of its own in tracerinfo.dat while its
    # bare tracer number is the row of an offset-0 tracer (e.g. adjoint
    # output): the reader then falls back to that name with scale 1
    rows0 = {tr['id']: tr for tr in tracers if tr['cat'] == 0}
    if not small and rng.random() < 0.25:
        for tr in tracers:
            if tr['cat'] > 0 and tr['id'] in rows0 and \
                    offsets[tr['cat']] + tr['id'] not in rows0:
                tr['norow'] = True
                tr['name'] = rows0[tr['id']]['name']
                break
    if rng.random() < 0.15:
        # a window in the vertical only: first indices (1, 1, L0 > 1)
        i0 = j0 = 1
        for tr in tracers:
            tr['k0'] = int(rng.integers(2, 5))
    nt = int(rng.integers(1, 3 if small else 5))
    tau0 = float(rng.integers(100000, 300000))
    spec = _gen_tail(rng, cats, offsets, ncat, tracers, ni, nj, i0, j0, nt,
                     tau0)
    if spec['nt'] >= 2 and spec['seed'] % 9 == 4:
        # time blocks that START together and end apart (a daily and a
        # monthly mean of the same tracer, an instantaneous block followed
        # by an average): each is a time block of its own
        spec['same_start'] = True
    return spec


def _gen_tail(rng, cats, offsets, ncat, tracers, ni, nj, i0, j0, nt, tau0):
    return {'fmt': 'bpch', 'cats': cats, 'offsets': offsets[:ncat],
            'tracers': tracers, 'ni': ni, 'nj': nj, 'i0': i0, 'j0': j0,
            'nt': nt, 'tau0': tau0, 'dtau': float(rng.choice([1, 24, 744])),
            'seed': int(rng.integers(1 << 30)),
            'modelname': 'GEOS5_47L', 'modelres': [5.0, 4.0],
            # (regional / nested grids have no half-size polar boxes)
            'halfpolar': int(rng.choice([1, 1, 0])),
            'center180': int(rng.choice([1, 1, 0])),
            'toptitle': 'GEOS-CHEM binary punch file v. 2.0'}


def key_of(spec, tr):
    return '%s_%s' % (spec['cats'][tr['cat']], tr['name'])


def raw_field(spec, ti, shape):
    rng = np.random.default_rng([int(spec['seed']), 2000 + ti])
    n = int(np.prod(shape))
    vals = (rng.permutation(n) + 1).astype('f8') * [0.25, 1.5, 3.0][ti % 3] \
        + (ti + 1) * 0.0625
    return vals.astype('f4').reshape(shape)


def all_tracers(spec):
    """the regular tracers plus, for an irregular file, the tracer that
    takes one slot in the interior time blocks"""
    irr = spec.get('irregular')
    return list(spec['tracers']) + ([irr['alt']] if irr else [])


def layout(spec):
    """[(time index, tracer, field index)] in file order.  An irregular
    file (spec['irregular'] = {'slot': i, 'alt': tracer}) carries tracer
    `alt` instead of tracer i in every interior time block; first and last
    block have the regular layout."""
    irr = spec.get('irregular')
    out = []
    for t in range(spec['nt']):
        for ti, tr in enumerate(spec['tracers']):
            if irr and ti == irr['slot'] and 0 < t < spec['nt'] - 1:
                out.append((t, irr['alt'], len(spec['tracers'])))
            else:
                out.append((t, tr, ti))
    return out


def content(spec):
    c = {'vars': {}, 'meta': {}, 'tau0': [], 'tau1': [], 'times': {}}
    nt = spec['nt']
    for t in range(nt):
        c['tau0'].append(spec['tau0'] + (0 if spec.get('same_start')
                                         else t) * spec['dtau'])
        c['tau1'].append(spec['tau0'] + (t + 1) * spec['dtau'])
    full = {}
    for ti, tr in enumerate(all_tracers(spec)):
        k = key_of(spec, tr)
        full[ti] = raw_field(spec, ti, (nt, tr['nl'], spec['nj'],
                                        spec['ni']))
        c['times'][k] = []
        c['meta'][k] = {'scale': tr['scale'], 'unit': tr['unit'],
                        'norow': bool(tr.get('norow')),
                        'category': spec['cats'][tr['cat']],
                        'tracerid': tr['id'], 'baseunit': tr['baseunit'],
                        'start': (spec['i0'], spec['j0'], tr['k0'])}
    fidx = {}
    for t, tr, fi in layout(spec):
        c['times'][key_of(spec, tr)].append(t)
        fidx[key_of(spec, tr)] = fi
    for k, ts in c['times'].items():
        c['vars'][k] = full[fidx[k]][ts]
    return c


def encode(spec):
    c = content(spec)
    out = [rec('CTM bin 02'.ljust(40).encode('ascii')),
           rec(spec['toptitle'].ljust(80).encode('ascii'))]
    for t, tr, fi in layout(spec):
        if True:
            k = key_of(spec, tr)
            arr = c['vars'][k][c['times'][k].index(t)]
            nl, nj, ni = arr.shape
            out.append(rec(spec['modelname'].ljust(20).encode('ascii') +
                           struct.pack('>ffii', spec['modelres'][0],
                                       spec['modelres'][1],
                                       spec['halfpolar'],
                                       spec['center180'])))
            skip = ni * nj * nl * 4 + 8
            out.append(rec(
                spec['cats'][tr['cat']].ljust(40).encode('ascii') +
                struct.pack('>i', tr['id']) +
                tr['baseunit'].ljust(40).encode('ascii') +
                struct.pack('>dd', c['tau0'][t], c['tau1'][t]) +
                b' ' * 40 +
                struct.pack('>iiiiii', ni, nj, nl, spec['i0'], spec['j0'],
                            tr['k0']) +
                struct.pack('>i', skip)))
            out.append(rec(np.ascontiguousarray(arr, '>f4').tobytes()))
    return b''.join(out)


def tracerinfo_text(spec):
    lines = ['# tracerinfo.dat written by pncmon (reference)']
    for tr in all_tracers(spec):
        if tr.get('norow'):
            continue
        num = spec['offsets'][tr['cat']] + tr['id']
        lines.append('%-8s %-30s%10.3E%3d%9d%10.3E %s' % (
            tr['name'], tr['name'] + ' tracer', tr['molwt'], tr['carbon'],
            num, tr['scale'], tr['unit']))
    return '\n'.join(lines) + '\n'


def diaginfo_text(spec):
    lines = ['# diaginfo.dat written by pncmon (reference)']
    for cat, off in zip(spec['cats'], spec['offsets']):
        lines.append('%8d %-40s %s' % (off, cat, cat + ' diagnostic'))
    return '\n'.join(lines) + '\n'


def decode(buf):
    """-> {'blocks': [ {category, tracerid, unit, tau0, tau1, dim, start,
    data(nl,nj,ni), modelname, modelres, halfpolar, center180} ], 'ftype',
    'toptitle'}; raises ValueError if the bytes do not follow the layout"""
    recs = walk(buf)
    if len(recs) < 2 or len(recs[0]) != 40 or len(recs[1]) != 80:
        raise ValueError('bpch: bad file header records')
    out = {'ftype': recs[0].decode('ascii').strip(),
           'toptitle': recs[1].decode('ascii').strip(), 'blocks': []}
    body = recs[2:]
    if len(body) % 3:
        raise ValueError('bpch: %d block records is not a multiple of 3'
                         % len(body))
    for i in range(0, len(body), 3):
        a, b, d = body[i:i + 3]
        if len(a) != 36 or len(b) != 168:
            raise ValueError('bpch: block header sizes %d/%d' % (len(a),
                                                                len(b)))
        xres, yres, hp, c180 = struct.unpack('>ffii', a[20:])
        tid, = struct.unpack('>i', b[40:44])
        tau0, tau1 = struct.unpack('>dd', b[84:100])
        ni, nj, nl, i0, j0, k0 = struct.unpack('>iiiiii', b[140:164])
        skip, = struct.unpack('>i', b[164:168])
        if skip != len(d) + 8 or len(d) != ni * nj * nl * 4:
            raise ValueError('bpch: skip %d / dims %s do not match the data '
                             'record of %d bytes' % (skip, (ni, nj, nl),
                                                     len(d)))
        out['blocks'].append({
            'modelname': a[:20].decode('ascii').strip(),
            'modelres': (xres, yres), 'halfpolar': hp, 'center180': c180,
            'category': b[:40].decode('ascii').strip(), 'tracerid': tid,
            'unit': b[44:84].decode('ascii').strip(), 'tau0': tau0,
            'tau1': tau1, 'dim': (ni, nj, nl), 'start': (i0, j0, k0),
            'data': np.frombuffer(d, '>f4').reshape(nl, nj, ni).astype('f4'),
        })
    return out
