"""Independent ARL packed-bit reference: PAKOUT/PAKINP serial loops (HYSPLIT
user's guide, "meteorological data format") in float32, index-record and
data-record encoder/decoder for lat/lon grids.  Shares no code with the
library."""
import math

import numpy as np

F = np.float32


def pakout(rvar):
    """serial PAKOUT: rvar (ny, nx) -> (bytes uint8 (ny,nx), prec, nexp,
    var1, ksum_rotating, minmax ICVAL before the byte cast)"""
    ny, nx = rvar.shape
    r = rvar.astype('f4')
    var1 = r[0, 0]
    rold = var1
    rmax = F(0.0)
    for j in range(ny):
        for i in range(nx):
            d = abs(F(r[j, i] - rold))
            if d > rmax:
                rmax = d
            rold = r[j, i]
        rold = r[j, 0]
    sexp = 0.0
    if rmax != 0.0:
        # single precision, as in the Fortran original (ALOG(RMAX)/ALOG(2.))
        sexp = float(F(np.log(F(rmax))) / F(np.log(F(2.0))))
    nexp = int(sexp)
    if sexp >= 0.0 or (sexp % 1.0) == 0.0:
        nexp += 1
    prec = F((2.0 ** nexp) / 254.0)
    scexp = F(2.0 ** (7 - nexp))
    cvar = np.zeros((ny, nx), 'u1')
    ksum = 0
    rcol = var1
    lo, hi = 10 ** 9, -10 ** 9
    for j in range(ny):
        rold = rcol
        for i in range(nx):
            icval = int(F(F(F(r[j, i] - rold) * scexp) + F(127.5)))
            lo, hi = min(lo, icval), max(hi, icval)
            cvar[j, i] = icval & 255
            rold = F(F(F(icval - 127) / scexp) + rold)
            if i == 0:
                rcol = rold
            ksum += icval
            if ksum >= 256:
                ksum -= 255
    return cvar, prec, nexp, var1, ksum, (lo, hi)


def pakinp(cvar, var1, nexp):
    """serial PAKINP: bytes (ny,nx) -> float32 field"""
    ny, nx = cvar.shape
    scale = F(2.0 ** (7 - int(nexp)))
    out = np.zeros((ny, nx), 'f4')
    vold = F(var1)
    for j in range(ny):
        for i in range(nx):
            out[j, i] = F(F((int(cvar[j, i]) - 127.) / scale) + vold)
            vold = out[j, i]
        vold = out[j, 0]
    return out


def pakinp_vec(cvar, var1, nexp):
    """vectorised PAKINP in float64 (for bounds, not for bit identity)"""
    scale = 2.0 ** (7 - int(nexp))
    d = (cvar.astype('f8') - 127.) / scale
    d[0, 0] += float(var1)
    d[:, 0] = np.cumsum(d[:, 0])
    return np.cumsum(d, axis=1)


# ---------------------------------------------------------------------------
def label(ymdhf, level, grid, key, nexp, prec, var1):
    return ('%s%2d%2s%-4s%4d%14.7E%14.7E' % (
        ymdhf, level, grid, key, nexp, prec, var1)).encode('ascii')


def field(spec, t, vi, k, shape):
    rng = np.random.default_rng([int(spec['seed']), 3000 + t * 97 + vi * 13
                                 + k])
    base = [280.0, 1000.0, 5.0, 0.01, 1e5][vi % 5]
    amp = [15.0, 50.0, 20.0, 0.01, 3e3][vi % 5]
    ny, nx = shape
    yy, xx = np.mgrid[0:ny, 0:nx]
    f = base + amp * np.sin(xx / 3.0 + vi) * np.cos(yy / 2.0 + k) + \
        rng.normal(0, amp / 10, shape)
    return f.astype('f4')


def gen_spec(rng):
    if rng.random() < 0.1:
        nx = int(rng.integers(8, 20))     # index record may not fit / spill
        ny = int(rng.integers(8, 16))
    else:
        nx = int(rng.integers(20, 37))
        ny = int(rng.integers(17, 29))
    nsfc = int(rng.integers(1, 4))
    nlay = int(rng.integers(1, 3))
    nz = int(rng.integers(1, 4))
    if rng.random() < 0.15:
        # more than 999 points along one axis: the thousands digit is carried
        # by the two GRID characters of every label ('@' = 0, 'A' = 1, ...),
        # the index record holds the remainder
        if rng.random() < 0.5:
            nx, ny = 1000 + int(rng.integers(2, 9)), int(rng.integers(3, 6))
        else:
            nx, ny = int(rng.integers(3, 6)), 1000 + int(rng.integers(2, 9))
    extra = None
    if nz >= 2 and rng.random() < 0.3:
        # a variable reported only from some upper level on (not at the
        # first upper level)
        extra = {'key': 'SPHU', 'from': int(rng.integers(1, nz))}
    return {
        'layextra': extra,
        'nx': nx, 'ny': ny, 'nt': int(rng.integers(1, 6)),
        'sfckeys': ['PRSS', 'T02M', 'U10M'][:nsfc],
        'laykeys': ['TEMP', 'UWND'][:nlay],
        'levels': [1.0] + [round(0.95 - 0.1 * i, 3) for i in range(nz)],
        # two-digit label years: 2001-2029, or an archive of the 1990s
        'year': int(rng.integers(1, 30)) if rng.random() < 0.75 else
        int(rng.integers(-10, 0)), 'month': int(rng.integers(1, 13)),
        'day': int(rng.integers(1, 28)), 'hour': int(rng.choice([0, 6, 12,
                                                                18])),
        'dhour': int(rng.choice([1, 3, 6, 12, 24])),
        'seed': int(rng.integers(1 << 30)),
        'dlat': 1.0, 'dlon': 1.0, 'lat0': 30.0, 'lon0': -100.0,
        # a forecast file: the labels carry non-zero forecast hours
        'forecast': bool(rng.random() < 0.3),
    }


def level_keys(spec, li):
    """variables reported at level li (0 = surface)"""
    if li == 0:
        return list(spec['sfckeys'])
    ex = spec.get('layextra')
    return list(spec['laykeys']) + (
        [ex['key']] if ex and li - 1 >= ex['from'] else [])


def times_of(spec):
    import datetime
    t0 = datetime.datetime(2000 + spec['year'], spec['month'], spec['day'],
                           spec['hour'])
    return [t0 + datetime.timedelta(hours=spec['dhour'] * i)
            for i in range(spec['nt'])]


def encode(spec):
    """-> (bytes, expected) expected: {'vars': {key: float32 decoded-by-
    reference array}, 'orig': {...}, 'times', 'levels', 'sfckeys', 'laykeys',
    'checks': [(t, key, level, ksum)]}"""
    nx, ny = spec['nx'], spec['ny']
    recl = 50 + nx * ny
    nlev = len(spec['levels'])           # surface + upper levels
    out = bytearray()
    exp = {'vars': {}, 'orig': {}, 'nexp': {}, 'times': times_of(spec),
           'levels': spec['levels'], 'sfckeys': spec['sfckeys'],
           'laykeys': spec['laykeys']}
    for k in spec['sfckeys']:
        exp['vars'][k] = np.zeros((spec['nt'], ny, nx), 'f4')
        exp['orig'][k] = np.zeros((spec['nt'], ny, nx), 'f4')
        exp['nexp'][k] = np.zeros((spec['nt'],), 'i4')
    for k in spec['laykeys']:
        exp['vars'][k] = np.zeros((spec['nt'], nlev - 1, ny, nx), 'f4')
        exp['orig'][k] = np.zeros((spec['nt'], nlev - 1, ny, nx), 'f4')
        exp['nexp'][k] = np.zeros((spec['nt'], nlev - 1), 'i4')
    ex = spec.get('layextra')
    if ex:
        nl = nlev - 1 - ex['from']
        exp['vars'][ex['key']] = np.zeros((spec['nt'], nl, ny, nx), 'f4')
        exp['orig'][ex['key']] = np.zeros((spec['nt'], nl, ny, nx), 'f4')
        exp['nexp'][ex['key']] = np.zeros((spec['nt'], nl), 'i4')
    grid = '99'
    if nx > 999 or ny > 999:
        grid = chr(64 + nx // 1000) + chr(64 + ny // 1000)
    for t, when in enumerate(exp['times']):
        # YYMMDDHH is the valid time; FF the forecast hour it was made with
        # (0 in archives, growing through a forecast file)
        ymdhf = when.strftime('%y%m%d%H') + '%2d' % (
            (t * spec['dhour']) % 100 if spec.get('forecast') else 0)
        recs = []
        levinfo = ''
        for li, lev in enumerate(spec['levels']):
            keys = level_keys(spec, li)
            txt = ('%6.4f' % lev)[:6] if lev < 10 else ('%6.1f' % lev)
            levinfo += txt + '%2d' % len(keys)
            for vi, key in enumerate(keys):
                f = field(spec, t, vi + (0 if li == 0 else 5), li, (ny, nx))
                cvar, prec, nexp, var1, ksum, mm = pakout(f)
                levinfo += '%-4s%3d ' % (key, ksum)
                recs.append(label(ymdhf, li, grid, key, nexp, prec, var1) +
                            cvar.tobytes())
                dec = pakinp(cvar, F(float('%14.7E' % var1)), nexp)
                if li == 0:
                    exp['vars'][key][t] = dec
                    exp['orig'][key][t] = f
                    exp['nexp'][key][t] = nexp
                else:
                    lj = li - 1 - (ex['from'] if ex and key == ex['key']
                                   else 0)
                    exp['vars'][key][t, lj] = dec
                    exp['orig'][key][t, lj] = f
                    exp['nexp'][key][t, lj] = nexp
        lenh = 108 + len(levinfo)
        hdr = ('%-4s%3d%2d' % ('PNCM', 99, 1) +
               ''.join('%7.2f' % v for v in (
                   90.0, 0.0, spec['dlat'], spec['dlon'], 0.0, 0.0, 0.0,
                   1.0, 1.0, spec['lat0'], spec['lon0'], 0.0)) +
               '%3d%3d%3d%2d%4d' % (nx % 1000, ny % 1000, nlev, 1, lenh))
        assert len(hdr) == 108, len(hdr)
        index = label(ymdhf, 0, grid, 'INDX', 0, 0.0, 0.0) + \
            (hdr + levinfo).encode('ascii')
        if len(index) > recl:
            raise ValueError('grid too small for the index record')
        out += index.ljust(recl, b' ')
        for r in recs:
            assert len(r) == recl
            out += r
    return bytes(out), exp


def decode(buf):
    """Independent decoder of an ARL packed file (lat/lon or any grid)."""
    idx = buf[:50 + 108].decode('ascii')
    if idx[14:18] != 'INDX':
        raise ValueError('first record is not an index record')
    h = idx[50:]
    nx, ny, nz = int(h[93:96]), int(h[96:99]), int(h[99:102])
    nx += max(0, (ord(idx[12:13]) - 64) * 1000)
    ny += max(0, (ord(idx[13:14]) - 64) * 1000)
    lenh = int(h[104:108])
    recl = 50 + nx * ny
    if len(buf) % recl:
        raise ValueError('file size %d is not a multiple of the record '
                         'length %d' % (len(buf), recl))
    out = {'nx': nx, 'ny': ny, 'nz': nz, 'times': [], 'steps': []}
    pos = 0
    while pos < len(buf):
        rec0 = buf[pos:pos + recl]
        if rec0[14:18] != b'INDX':
            raise ValueError('expected an index record at %d' % pos)
        lenh = int(rec0[50 + 104:50 + 108])
        levtxt = rec0[50 + 108:50 + lenh].decode('ascii')
        levels = []
        p = 0
        for li in range(nz):
            lev = float(levtxt[p:p + 6])
            nv = int(levtxt[p + 6:p + 8])
            p += 8
            keys = []
            for v in range(nv):
                keys.append((levtxt[p:p + 4].strip(),
                             int(levtxt[p + 4:p + 7])))
                p += 8
            levels.append((lev, keys))
        step = {'stamp': rec0[:10].decode('ascii'), 'levels': levels,
                'fields': []}
        pos += recl
        for li, (lev, keys) in enumerate(levels):
            for key, cks in keys:
                r = buf[pos:pos + recl]
                lab = r[:50].decode('ascii')
                if lab[14:18].strip() != key:
                    raise ValueError('record %r where %r expected'
                                     % (lab[14:18], key))
                nexp = int(lab[18:22])
                prec = float(lab[22:36])
                var1 = float(lab[36:50])
                cvar = np.frombuffer(r[50:], 'u1').reshape(ny, nx)
                step['fields'].append({
                    'key': key, 'level': li, 'nexp': nexp, 'prec': prec,
                    'var1': var1, 'cvar': cvar, 'checksum': cks,
                    'data': pakinp_vec(cvar, var1, nexp)})
                pos += recl
        out['steps'].append(step)
    return out
