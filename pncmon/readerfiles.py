"""Receivers that come out of the library's READERS (not constructors): an
independent codec writes a valid image, the library reader opens it, and the
object it returns is the file the monitored operations start from.

kinds: camx:<format>:<Memmap|Read>, bpch1, bpch2, arl, ffi1001
"""
import os

import numpy as np

from . import harness, refarl, refbpch, refcamx

READ_FMTS = ['uamiv', 'temperature', 'height_pressure', 'humidity',
             'vertical_diffusivity', 'wind', 'one3d']
KINDS = (['camx:%s:Memmap' % f for f in refcamx.FORMATS] +
         ['camx:%s:Read' % f for f in READ_FMTS] +
         ['bpch1', 'bpch2', 'arl', 'ffi1001'])
OPEN_BUDGET = 2000000


UPDATABLE = ('camx:uamiv:Memmap', 'camx:lateral_boundary:Memmap',
             'camx:landuse:Memmap', 'bpch1')


def gen_spec(rng, kind=None, idx=None, update_mode=False):
    rs = _gen_spec(rng, kind, idx)
    # the readers' rarely used, documented keywords
    r = rng.random()
    if rs['kind'] == 'bpch1' and r < 0.7:
        if r < 0.4:
            # a proper subset of the time blocks: (start, stop) of a slice
            nt = rs['spec']['nt'] = max(rs['spec']['nt'], 2 + int(r * 10) % 2)
            rs['open_kw'] = {'timeslice': [0, nt - 1] if r < 0.2
                             else [1, None]}
        elif r < 0.55:
            rs['open_kw'] = {'noscale': True}
        else:
            rs['open_kw'] = {'nogroup': True}
    elif rs['kind'] == 'bpch2' and r < 0.3:
        rs['open_kw'] = {'noscale': True} if r < 0.15 else {'nogroup': True}
    elif rs['kind'] == 'arl' and r < 0.3:
        rs['open_kw'] = {'cache': True}
    if update_mode and rs['kind'] in UPDATABLE and rng.random() < 0.5:
        # opened for update: the memory map is writable, so whatever shares
        # it can change the file
        rs['open_mode'] = 'r+'
    return rs


def _gen_spec(rng, kind=None, idx=None):
    if kind is None:
        kind = KINDS[int(idx) % len(KINDS)] if idx is not None \
            else KINDS[int(rng.integers(len(KINDS)))]
    if kind.startswith('camx:'):
        _, fmt, reader = kind.split(':')
        cs = refcamx.gen_spec(rng, fmt)
        if fmt == 'uamiv' and reader == 'Read':
            # single-instant names are outside what the record reader is for
            # (see C13)
            cs['name'] = 'AVERAGE' if cs['name'] in ('AVERAGE', 'INSTANT') \
                else 'EMISSIONS'
        return {'kind': kind, 'spec': cs}
    if kind in ('bpch1', 'bpch2'):
        return {'kind': kind, 'spec': refbpch.gen_spec(rng, small=True)}
    if kind == 'arl':
        return {'kind': kind, 'spec': refarl.gen_spec(rng)}
    if kind == 'ffi1001':
        from .props import c19
        return {'kind': kind, 'spec': c19.gen(rng, 0, 'quick', 0)}
    raise KeyError(kind)


def _open(rs, d):
    kind, spec = rs['kind'], rs['spec']
    if kind.startswith('camx:'):
        from .props.c09 import open_lib
        _, fmt, reader = kind.split(':')
        p = os.path.join(d, 'img.' + fmt)
        with open(p, 'wb') as fh:
            fh.write(refcamx.encode(spec))
        if rs.get('open_mode') and reader == 'Memmap':
            from PseudoNetCDF.camxfiles import Memmaps
            R = getattr(Memmaps, fmt)
            if fmt in ('uamiv', 'lateral_boundary'):
                return R(p, mode=rs['open_mode'])
            if fmt == 'landuse':
                return R(p, spec['ny'], spec['nx'], mode=rs['open_mode'])
        return open_lib(fmt, p, spec, reader=reader)
    if kind in ('bpch1', 'bpch2'):
        p = os.path.join(d, 'img.bpch')
        with open(p, 'wb') as fh:
            fh.write(refbpch.encode(spec))
        with open(os.path.join(d, 'tracerinfo.dat'), 'w') as fh:
            fh.write(refbpch.tracerinfo_text(spec))
        with open(os.path.join(d, 'diaginfo.dat'), 'w') as fh:
            fh.write(refbpch.diaginfo_text(spec))
        from PseudoNetCDF.geoschemfiles import bpch1, bpch2
        kw = dict(rs.get('open_kw') or {})
        if 'timeslice' in kw:
            kw['timeslice'] = slice(*kw['timeslice'])
        if kind == 'bpch1' and rs.get('open_mode'):
            kw['mode'] = rs['open_mode']
        return (bpch1 if kind == 'bpch1' else bpch2)(p, **kw)
    if kind == 'arl':
        img, _ = refarl.encode(spec)
        p = os.path.join(d, 'img.arl')
        with open(p, 'wb') as fh:
            fh.write(img)
        from PseudoNetCDF.noaafiles import arlpackedbit
        return arlpackedbit(p, **(rs.get('open_kw') or {}))
    if kind == 'ffi1001':
        from .props import c19
        src = c19.build(spec)
        p = os.path.join(d, 'img.ict')
        src.save(p, format='ffi1001')
        from PseudoNetCDF.icarttfiles.ffi1001 import ffi1001
        return ffi1001(p)
    raise KeyError(kind)


def open_reader(rs, d):
    """-> (file or None, status).  A reader that rejects the image, or does
    not terminate within the budget, gives no receiver: whether it may do so
    is the business of C09/C13/C14/C18/C19/C20, not of the properties that
    start from the returned object."""
    try:
        with harness.step_budget(OPEN_BUDGET):
            f = _open(rs, d)
            # lazily built variables are built inside the budget as well
            try:
                for _, dim in f.dimensions.items():
                    len(dim)
                for k in list(f.variables.keys()):
                    f.variables[k]
            except harness.StepBudgetExceeded:
                raise
            except Exception as e:
                # the reader opened the image but cannot deliver what it
                # lists (the record readers' date arithmetic, C13)
                return None, 'reader-cannot-deliver:' + type(e).__name__
        return f, 'ok'
    except harness.StepBudgetExceeded:
        return None, 'reader-budget'
    except ValueError as e:
        if rs['kind'] == 'arl' and 'fit' in str(e):
            return None, 'image-not-encodable'
        return None, 'reader-raised:' + type(e).__name__
    except Exception as e:
        return None, 'reader-raised:' + type(e).__name__


def kind_tag(rs):
    return rs['kind']
