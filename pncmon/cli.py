"""Driver: tiers, seeds, sharding over subprocess workers, verdicts, evidence.

Each property module in pncmon.props exposes
    PROP, LEVEL, RULE, ASSUMPTIONS, HOOKS (names whose counters must be > 0),
    MIN_DISTINCT (dict tier -> int),
    ncases(tier) -> int
    gen(rng, idx, tier, seed) -> JSON-able case spec
    run(spec, res) -> None      (records into `res`, a Result)
Optional: FACETS_REQUIRED (list of facet names that must have been seen),
          EXHAUSTIVE (dict tier -> bool), extra_coverage(agg) -> dict.
"""
import argparse
import hashlib
import importlib
import json
import os
import subprocess
import sys
import time
import traceback

import numpy as np

from . import harness, findings

VERIF = harness.VERIF
PROPNUM = {('C%02d' % i): i for i in range(1, 21)}


def jdefault(o):
    if isinstance(o, (np.integer,)):
        return int(o)
    if isinstance(o, (np.floating,)):
        return float(o)
    if isinstance(o, np.bool_):
        return bool(o)
    if isinstance(o, np.ndarray):
        return o.tolist()
    if isinstance(o, (bytes, bytearray)):
        return o.hex()
    if isinstance(o, (set, tuple)):
        return list(o)
    return repr(o)


def dumps(o, **kw):
    return json.dumps(o, default=jdefault, **kw)


def digest(o):
    return hashlib.sha1(dumps(o, sort_keys=True).encode()).hexdigest()[:14]


class Result:
    """What one case observed."""

    def __init__(self):
        self.evals = 0
        self.digests = []       # digests of distinct non-trivial evaluations
        self.facets = {}
        self.hooks = {}
        self.viols = []
        self.notes = {}

    def ev(self, dig=None, nontrivial=True, facet=None, n=1):
        self.evals += n
        if dig is not None and nontrivial:
            self.digests.append(dig if isinstance(dig, str) else digest(dig))
        if facet:
            if isinstance(facet, str):
                facet = [facet]
            for f in facet:
                self.facets[f] = self.facets.get(f, 0) + 1

    def facet(self, f, n=1):
        self.facets[f] = self.facets.get(f, 0) + n

    def hook(self, name, n=1):
        self.hooks[name] = self.hooks.get(name, 0) + n

    def viol(self, kind, msg, **extra):
        v = {'kind': kind, 'msg': str(msg)[:2000]}
        v.update(extra)
        self.viols.append(v)

    def note(self, k, n=1):
        self.notes[k] = self.notes.get(k, 0) + n


def load(prop):
    return importlib.import_module('pncmon.props.' + prop.lower())


def case_rng(seed, prop, idx):
    return np.random.default_rng([int(seed), PROPNUM[prop], int(idx)])


def run_one(mod, spec, known):
    """Run one case; classify violations. Returns (Result, classified)."""
    res = Result()
    limit = getattr(mod, 'CASE_WALL_S', 300)
    try:
        with harness.wallclock(limit):
            mod.run(spec, res)
    except harness.WallClockTimeout as e:
        res.note('inconclusive:wallclock')
        res.notes.setdefault('inconclusive_detail', str(e))
    except harness.StepBudgetExceeded as e:
        res.viol('step-budget', 'uncaught step budget: %s' % e)
    except Exception:
        res.note('inconclusive:harness-error')
        res.notes['harness_error_tb'] = traceback.format_exc()[-3000:]
    out = []
    for v in res.viols:
        fid = findings.classify(mod.PROP, v, spec, known)
        out.append((fid, v))
    return res, out


def worker(mod, tier, seed, shard, nshards, outpath):
    harness.setup()
    known = findings.load_known()
    n = mod.ncases(tier)
    agg = {'evaluations': 0, 'digests': set(), 'facets': {}, 'hooks': {},
           'notes': {}, 'known': {}, 'violations': [], 'samples': [],
           'cases': 0, 'known_witness': {}}
    seen_kinds = {}
    t0 = time.time()
    budget = getattr(mod, 'WORKER_WALL_S', {}).get(tier)
    for idx in range(shard, n, nshards):
        if budget and time.time() - t0 > budget:
            agg['notes']['stopped_on_time_budget_at_idx'] = idx
            break
        rng = case_rng(seed, mod.PROP, idx)
        spec = mod.gen(rng, idx, tier, seed)
        if spec is None:
            continue
        if getattr(mod, 'CRASH_ATTRIBUTION', False):
            with open(outpath + '.cur', 'w') as cf:
                cf.write(str(idx))
        res, cls = run_one(mod, spec, known)
        agg['cases'] += 1
        agg['evaluations'] += res.evals
        agg['digests'].update(res.digests)
        for k, c in res.facets.items():
            agg['facets'][k] = agg['facets'].get(k, 0) + c
        for k, c in res.hooks.items():
            agg['hooks'][k] = agg['hooks'].get(k, 0) + c
        for k, c in res.notes.items():
            if k.startswith('max_'):
                agg['notes'][k] = max(agg['notes'].get(k, 0), c)
            elif isinstance(c, int):
                agg['notes'][k] = agg['notes'].get(k, 0) + c
            else:
                agg['notes'].setdefault(k, c)
        if len(agg['samples']) < 3 and res.evals:
            agg['samples'].append({'idx': idx, 'spec': spec})
        for fid, v in cls:
            if fid is not None:
                agg['known'][fid] = agg['known'].get(fid, 0) + 1
                agg['known_witness'].setdefault(
                    fid, {'idx': idx, 'msg': v['msg'][:300]})
            else:
                c = seen_kinds.get(v['kind'], 0)
                seen_kinds[v['kind']] = c + 1
                if c < 3:
                    agg['violations'].append(
                        {'idx': idx, 'spec': spec, 'violation': v})
    agg['viol_counts'] = seen_kinds
    agg['digests'] = sorted(agg['digests'])
    agg['wall_s'] = time.time() - t0
    with open(outpath, 'w') as f:
        f.write(dumps(agg))


def merge(parts):
    agg = {'evaluations': 0, 'digests': set(), 'facets': {}, 'hooks': {},
           'notes': {}, 'known': {}, 'violations': [], 'samples': [],
           'cases': 0, 'viol_counts': {}, 'known_witness': {}}
    for p in parts:
        agg['evaluations'] += p['evaluations']
        agg['cases'] += p['cases']
        agg['digests'].update(p['digests'])
        for key in ('facets', 'hooks', 'known', 'viol_counts'):
            for k, c in p[key].items():
                agg[key][k] = agg[key].get(k, 0) + c
        for k, c in p['notes'].items():
            if k.startswith('max_'):
                agg['notes'][k] = max(agg['notes'].get(k, 0), c)
            elif isinstance(c, int):
                agg['notes'][k] = agg['notes'].get(k, 0) + c
            else:
                agg['notes'].setdefault(k, c)
        for k, w in p.get('known_witness', {}).items():
            agg['known_witness'].setdefault(k, w)
        agg['violations'].extend(p['violations'])
        agg['samples'].extend(p['samples'])
    agg['samples'] = sorted(agg['samples'], key=lambda s: s['idx'])[:3]
    agg['violations'].sort(key=lambda v: v['idx'])
    return agg


def write_evidence(mod, tier, seed, agg, wall, status, reasons):
    known = findings.load_known()
    cov = {
        'evaluations': int(agg['evaluations']),
        'distinct_nontrivial': len(agg['digests']),
        'rule': mod.RULE,
        'samples': agg['samples'][:3] or [{'note': 'no case ran'}],
        'cases': agg['cases'],
        'hook_evaluations': agg['hooks'],
        'facets': dict(sorted(agg['facets'].items())),
        'known_findings_fired': {
            k: {'count': c, 'what': findings.what(known, k),
                'first_witness': agg['known_witness'].get(k)}
            for k, c in sorted(agg['known'].items())},
        'unlisted_violation_kinds': agg['viol_counts'],
        'notes': agg['notes'],
        'verdict': status,
        'verdict_reasons': reasons,
        'tree': harness.tree_id(),
    }
    if getattr(mod, 'EXHAUSTIVE', {}).get(tier):
        cov['exhaustive'] = True
    extra = getattr(mod, 'extra_coverage', None)
    if extra:
        cov.update(extra(agg, tier))
    ev = {
        'property_id': mod.PROP, 'tier': tier, 'seed': int(seed),
        'level': mod.LEVEL, 'coverage': cov,
        'assumptions': list(mod.ASSUMPTIONS), 'wall_s': round(wall, 2),
        'violations': int(sum(agg['viol_counts'].values())),
    }
    # VERIF_EVIDENCE_DIR: only used when a scratch copy of the repository is
    # under test (self-tests on seeded changes) so that the registered
    # evidence files always describe /repo itself
    evdir = os.environ.get('VERIF_EVIDENCE_DIR') or os.path.join(VERIF,
                                                                 'evidence')
    os.makedirs(evdir, exist_ok=True)
    path = os.path.join(evdir, mod.PROP + '.json')
    tmp = path + '.tmp'
    with open(tmp, 'w') as f:
        f.write(dumps(ev, indent=1))
        f.write('\n')
    os.replace(tmp, path)
    return path


def decide(mod, tier, agg, crashed):
    reasons = []
    if crashed:
        reasons += crashed
    for h in mod.HOOKS:
        if agg['hooks'].get(h, 0) <= 0:
            reasons.append('hook-never-evaluated:' + h)
    for f in getattr(mod, 'FACETS_REQUIRED', {}).get(tier, []):
        if agg['facets'].get(f, 0) <= 0:
            reasons.append('facet-never-seen:' + f)
    need = mod.MIN_DISTINCT.get(tier, 2)
    if len(agg['digests']) < need:
        reasons.append('too-few-distinct-nontrivial:%d<%d'
                       % (len(agg['digests']), need))
    for k in agg['notes']:
        if k.startswith('inconclusive:'):
            reasons.append('%s x%s' % (k, agg['notes'][k]))
    if agg['viol_counts']:
        return 'violated', reasons
    if reasons:
        return 'inconclusive', reasons
    return 'held', reasons


def main(argv=None):
    ap = argparse.ArgumentParser(prog='check')
    ap.add_argument('prop')
    ap.add_argument('--tier', default=os.environ.get('VERIF_TIER', 'quick'),
                    choices=['quick', 'thorough'])
    ap.add_argument('--replay')
    ap.add_argument('--worker')
    ap.add_argument('--out')
    ap.add_argument('--jobs', type=int, default=None)
    ap.add_argument('--case', type=int, default=None,
                    help='run the single case idx in-process (debug)')
    a = ap.parse_args(argv)
    prop = a.prop.upper()
    if prop not in PROPNUM:
        print('unknown property', prop)
        return 2
    seed = int(os.environ.get('VERIF_SEED', '0') or 0)
    mod = load(prop)

    if a.worker:
        k, n = a.worker.split('/')
        worker(mod, a.tier, seed, int(k), int(n), a.out)
        return 0

    if a.replay or a.case is not None:
        harness.setup()
        known = findings.load_known()
        if a.replay:
            with open(a.replay) as f:
                rp = json.load(f)
            spec = rp['spec']
        else:
            spec = mod.gen(case_rng(seed, prop, a.case), a.case, a.tier, seed)
            print('spec:', dumps(spec))
        res, cls = run_one(mod, spec, known)
        bad = 0
        for fid, v in cls:
            if fid is None:
                bad += 1
                print('VIOLATION property=%s replay=%s kind=%s'
                      % (prop, a.replay or 'case:%d' % a.case, v['kind']))
                print('  ' + v['msg'].replace('\n', '\n  '))
            else:
                print('KNOWN-FINDING: property=%s %s [%s]'
                      % (prop, findings.what(known, fid), fid))
                print('  ' + v['msg'][:400].replace('\n', '\n  '))
        print('evals=%d hooks=%s notes=%s' % (res.evals, res.hooks,
                                              {k: v for k, v in
                                               res.notes.items()
                                               if k != 'harness_error_tb'}))
        if 'harness_error_tb' in res.notes:
            print(res.notes['harness_error_tb'])
        return 1 if bad else 0

    t0 = time.time()
    jobs = a.jobs or int(os.environ.get('VERIF_JOBS', '0') or 0) or \
        getattr(mod, 'JOBS', {}).get(a.tier) or \
        (4 if a.tier == 'quick' else 16)
    jobs = max(1, min(jobs, mod.ncases(a.tier)))
    outdir = os.path.join(harness.tmproot(), 'parts')
    os.makedirs(outdir, exist_ok=True)
    procs = []
    env = dict(os.environ)
    env['VERIF_SEED'] = str(seed)
    for k in range(jobs):
        out = os.path.join(outdir, 'part%d.json' % k)
        log = open(os.path.join(outdir, 'log%d.txt' % k), 'wb')
        p = subprocess.Popen(
            [sys.executable, '-X', 'faulthandler', '-m', 'pncmon.cli', prop,
             '--tier', a.tier, '--worker', '%d/%d' % (k, jobs), '--out', out],
            stdout=log, stderr=subprocess.STDOUT, env=env, cwd=VERIF)
        procs.append((k, p, out, log))
    limit = getattr(mod, 'TOTAL_WALL_S', {}).get(a.tier,
                                                 900 if a.tier == 'quick'
                                                 else 4 * 3600)
    crashed = []
    parts = []
    for k, p, out, log in procs:
        try:
            rc = p.wait(timeout=max(1, limit - (time.time() - t0)))
        except subprocess.TimeoutExpired:
            p.kill()
            rc = None
        log.close()
        if rc != 0 or not os.path.exists(out):
            tail = open(log.name, 'rb').read()[-1500:].decode('utf8',
                                                              'replace')
            if rc is not None and os.path.exists(out + '.cur'):
                # the process died inside the library/C code while running a
                # known case: that is an observed outcome, not a lost run
                cidx = int(open(out + '.cur').read().strip())
                cspec = mod.gen(case_rng(seed, prop, cidx), cidx, a.tier,
                                seed)
                v = {'kind': 'process-crash', 'msg': 'worker died (exit %s) '
                     'while running case %d:\n%s' % (rc, cidx, tail)}
                fid = findings.classify(prop, v, cspec, findings.load_known())
                part = merge([])
                part['digests'] = []
                if fid is None:
                    part['violations'] = [{'idx': cidx, 'spec': cspec,
                                           'violation': v}]
                    part['viol_counts'] = {'process-crash': 1}
                else:
                    part['known'] = {fid: 1}
                part['notes'] = {'inconclusive:worker-%d-died-rest-of-shard-'
                                 'not-run' % k: 1}
                parts.append(part)
                continue
            crashed.append('worker-%d-%s: %s' % (
                k, 'timeout' if rc is None else 'exit%s' % rc, tail))
            continue
        with open(out) as f:
            parts.append(json.load(f))
    agg = merge(parts) if parts else merge([])
    status, reasons = decide(mod, a.tier, agg, crashed)
    known = findings.load_known()
    for fid, c in sorted(agg['known'].items()):
        print('KNOWN-FINDING: property=%s %s [%s; %d witnesses this run]'
              % (prop, findings.what(known, fid), fid, c))
    rc = 0
    if status == 'violated':
        rc = 1
        done = set()
        rdir = os.path.join(os.environ.get('VERIF_REPLAY_DIR') or
                            os.path.join(VERIF, 'replays'), prop)
        os.makedirs(rdir, exist_ok=True)
        for v in agg['violations']:
            kind = v['violation']['kind']
            if kind in done:
                continue
            done.add(kind)
            path = os.path.join(rdir, '%s-seed%d-%s-case%d.json' % (
                ''.join(ch if ch.isalnum() else '_' for ch in kind)[:60],
                seed, a.tier, v['idx']))
            with open(path, 'w') as f:
                f.write(dumps({'property': prop, 'seed': seed,
                               'tier': a.tier, 'idx': v['idx'],
                               'spec': v['spec'],
                               'violation': v['violation'],
                               'tree': harness.tree_id()}, indent=1))
            print('VIOLATION property=%s replay=%s' % (prop, path))
            print('  kind=%s count=%d: %s' % (
                kind, agg['viol_counts'].get(kind, 0),
                v['violation']['msg'][:600].replace('\n', '\n  ')))
    elif status == 'inconclusive':
        rc = 2
        print('INCONCLUSIVE property=%s reason=%s' % (
            prop, '; '.join(r[:400] for r in reasons)))
    wall = time.time() - t0
    path = write_evidence(mod, a.tier, seed, agg, wall, status, reasons)
    print('%s property=%s tier=%s seed=%d cases=%d evaluations=%d '
          'distinct=%d known=%d wall=%.1fs evidence=%s'
          % (status.upper(), prop, a.tier, seed, agg['cases'],
             agg['evaluations'], len(agg['digests']),
             sum(agg['known'].values()), wall,
             os.path.relpath(path, VERIF) if path.startswith(VERIF)
             else path))
    return rc


if __name__ == '__main__':
    sys.exit(main())
