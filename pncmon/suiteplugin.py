"""pytest plugin: runs the repository's OWN test suite with monitors on the
public transformation operations of PseudoNetCDFFile (C01: the result is
well-formed; C05: receiver and file arguments are unchanged).  The suite is a
realistic workload over the bundled sample files; the monitors observe, they
never raise into the test.  Results go to $VERIF_SUITE_OUT as JSON."""
import functools
import json
import os

OPS = ['copy', 'sliceDimensions', 'applyAlongDimensions', 'stack',
       'subsetVariables', 'renameVariable', 'renameVariables',
       'renameDimension', 'renameDimensions', 'insertDimension',
       'removeSingleton', 'reorderDimensions', 'mask', 'eval',
       'interpDimension', '__add__', '__sub__', '__mul__', '__truediv__']
STATE = {'counts': {}, 'viol': [], 'errors': 0, 'depth': 0}


def _install():
    from PseudoNetCDF.core._files import PseudoNetCDFFile
    from . import snapshot

    def wrap(name, fn):
        @functools.wraps(fn)
        def inner(self, *a, **k):
            # only the outermost monitored call is judged (operations call
            # one another on intermediate objects)
            if STATE['depth'] > 0:
                return fn(self, *a, **k)
            STATE['depth'] += 1
            try:
                pre = None
                try:
                    files = [self] + [x for x in a
                                      if isinstance(x, PseudoNetCDFFile)]
                    pre = [snapshot.file_digest_bytes(snapshot.snap_file(x))
                           for x in files]
                except Exception:
                    STATE['errors'] += 1
                out = fn(self, *a, **k)
            finally:
                STATE['depth'] -= 1
            try:
                test = os.environ.get('PYTEST_CURRENT_TEST', '?').split(' ')[0]
                STATE['counts'][name] = STATE['counts'].get(name, 0) + 1
                if isinstance(out, PseudoNetCDFFile):
                    bad = snapshot.wellformed(out)
                    if bad:
                        STATE['viol'].append({
                            'prop': 'C01', 'op': name, 'test': test,
                            'receiver': type(self).__name__,
                            'problems': bad[:6]})
                inplace = out is self or k.get('inplace')
                if pre is not None and not inplace:
                    post = [snapshot.file_digest_bytes(snapshot.snap_file(x))
                            for x in files]
                    for i, (p, q) in enumerate(zip(pre, post)):
                        if p != q:
                            STATE['viol'].append({
                                'prop': 'C05', 'op': name, 'test': test,
                                'receiver': type(self).__name__,
                                'problems': ['%s changed' % (
                                    'receiver' if i == 0 else
                                    'argument %d' % i)]})
            except Exception:
                STATE['errors'] += 1
            return out
        return inner
    for name in OPS:
        fn = PseudoNetCDFFile.__dict__.get(name)
        if fn is not None:
            setattr(PseudoNetCDFFile, name, wrap(name, fn))


def pytest_configure(config):
    _install()


def pytest_sessionfinish(session, exitstatus):
    out = os.environ.get('VERIF_SUITE_OUT')
    if out:
        with open(out, 'w') as fh:
            json.dump({'counts': STATE['counts'], 'violations': STATE['viol'],
                       'monitor_errors': STATE['errors'],
                       'exitstatus': int(exitstatus)}, fh)
