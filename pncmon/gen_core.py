"""Seeded generator of core (in-memory) netCDF-like files.

A file is described by a small JSON-able spec; payloads are derived
deterministically from per-variable seeds so that a replay file re-creates
exactly the same file.
"""
import numpy as np

SPECIAL = ['time', 'TSTEP', 'LAY', 'ROW', 'COL', 'latitude', 'longitude',
           'x', 'y', 'z', 'lev', 'points', 'nv']
NEUTRAL = ['da', 'db', 'dc', 'dd', 'de']
DTYPES = ['f4', 'f8', 'i2', 'i4', 'i8', 'u1']
FILLS = {'f4': [-999.0, 1e20, -1.0], 'f8': [-999.0, 9.96921e36, -1e30],
         'i2': [-999, -32767, 0], 'i4': [-999, -2147483647, 12345],
         'i8': [-999, -9999999999], 'u1': [255, 0, 7]}


def payload(seed, shape, dtype, imax=None):
    """distinct, non-zero values (as far as the dtype allows)"""
    n = int(np.prod(shape)) if len(shape) else 1
    rng = np.random.default_rng([int(seed), 77])
    perm = rng.permutation(n)
    dt = np.dtype(dtype)
    if dt.kind == 'f':
        scale = [0.25, 1.5, 3.0, 1e-3, 1e3][int(seed) % 5]
        sign = np.where(rng.random(n) < 0.3, -1.0, 1.0)
        vals = (perm + 1) * scale * sign + 0.125
    elif dt.kind == 'u':
        vals = (perm % (min(250, int(imax)) if imax else 250)) + 1
    else:
        info = np.iinfo(dt)
        hi = min(info.max, 30000)
        if imax:
            hi = min(hi, int(imax))
        sign = np.where(rng.random(n) < 0.3, -1, 1)
        vals = ((perm % hi) + 1) * sign
    return np.asarray(vals).astype(dt).reshape(shape)


def maskfor(seed, shape, kind):
    n = int(np.prod(shape)) if len(shape) else 1
    rng = np.random.default_rng([int(seed), 78])
    if kind == 'random':
        m = rng.random(n) < 0.3
    elif kind == 'all':
        m = np.ones(n, bool)
    elif kind == 'one':
        m = np.zeros(n, bool)
        m[rng.integers(n)] = True
    else:  # 'nomask' masked type without masked cells
        m = np.zeros(n, bool)
    return m.reshape(shape)


def coordvals(seed, n, kind, dtype='f8'):
    rng = np.random.default_rng([int(seed), 79])
    if 'uniform' in kind and 'non' not in kind:
        step = float(rng.choice([0.5, 1.0, 2.5, 10.0]))
        vals = rng.integers(-20, 20) * 1.0 + step * np.arange(n)
    else:
        vals = np.cumsum(rng.uniform(0.5, 3.0, n)) + rng.integers(-20, 20)
    if kind.startswith('desc'):
        vals = vals[::-1].copy()
    return vals.astype(dtype)


def gen_attrs(rng, n=None):
    pool = [('title', 'a file'), ('units', 'ppmV'), ('long_name', 'thing'),
            ('note', ''), ('ival', 3), ('fval', 2.5),
            ('npi', np.int32(7)), ('npf', np.float32(1.5)),
            ('arr', [1.0, 2.0, 3.5]), ('iarr', [1, 2, 3]),
            ('history', 'made by pncmon'), ('scale', 1e-3),
            # arrays in the other byte order (read with np.fromfile from a
            # big-endian binary file and stored as they came)
            ('bearr', {'np': '>f4', 'v': [1.0, 0.75, 0.5, 0.0]}),
            ('beiarr', {'np': '>i4', 'v': [1, 2, 300]})]
    if n is None:
        n = int(rng.integers(0, 4))
    idx = rng.permutation(len(pool))[:n]
    out = []
    for i in idx:
        k, v = pool[i]
        if k in ('npi',):
            out.append([k, {'np': 'i4', 'v': int(v)}])
        elif k in ('npf',):
            out.append([k, {'np': 'f4', 'v': float(v)}])
        elif isinstance(v, dict):
            out.append([k, v])
        elif isinstance(v, list):
            out.append([k, {'np': 'f8' if isinstance(v[0], float) else 'i4',
                            'v': v}])
        else:
            out.append([k, v])
    return out


def attr_value(v):
    if isinstance(v, dict) and 'np0' in v:
        # a 0-d array (what a reader stores for a header number)
        return np.array(v['v'], dtype=v['np0'])
    if isinstance(v, dict) and 'np' in v:
        if isinstance(v['v'], list):
            return np.array(v['v'], dtype=v['np'])
        return np.dtype(v['np']).type(v['v'])
    return v


def gen_filespec(rng, maxdims=5, maxvars=6, allow_unlimited=True,
                 allow_scalar=True, dtypes=None, allow_char=False,
                 maxlen=6, mask_prob=0.4, coord_prob=0.5, names=None,
                 bounds_prob=0.0, second_unlimited=False):
    dtypes = dtypes or DTYPES
    nd = int(rng.integers(2, maxdims + 1))
    pool = list(names) if names else (
        list(rng.permutation(SPECIAL)[:3]) + list(rng.permutation(NEUTRAL)))
    pool = list(dict.fromkeys(pool))
    dn = [str(x) for x in rng.permutation(pool)[:nd]]
    dims = []
    unl = int(rng.integers(0, nd)) if (allow_unlimited and
                                      rng.random() < 0.5) else -1
    unl2 = (unl + 1) % nd if (second_unlimited and unl >= 0 and nd > 1) \
        else -1
    for i, name in enumerate(dn):
        ln = int(rng.choice([1, 1, 2, 2, 3, 4, 5, 6]))
        ln = min(ln, maxlen)
        dims.append([name, ln, i in (unl, unl2)])
    dlen = {d[0]: d[1] for d in dims}
    vars_ = []
    # coordinate variables
    for name, ln, _ in dims:
        if rng.random() < coord_prob:
            kind = str(rng.choice(['asc_uniform', 'asc_nonuniform',
                                   'desc_uniform', 'desc_nonuniform']))
            vars_.append({'name': name, 'dims': [name], 'dtype': 'f8',
                          'kind': kind, 'mask': 'none', 'fill': None,
                          'seed': int(rng.integers(1 << 30)),
                          'attrs': gen_attrs(rng, int(rng.integers(0, 2)))})
    nv = int(rng.integers(1, maxvars + 1))
    for i in range(nv):
        r = rng.random()
        if allow_scalar and r < 0.08:
            vd = []
        else:
            k = int(rng.integers(1, min(4, nd) + 1))
            idx = sorted(rng.permutation(nd)[:k].tolist())
            if rng.random() < 0.2:
                idx = rng.permutation(idx).tolist()
            vd = [dn[j] for j in idx]
        dt = str(rng.choice(dtypes))
        if allow_char and rng.random() < 0.08:
            dt = 'S1'
        mk = 'none'
        fill = None
        if dt != 'S1' and rng.random() < mask_prob:
            mk = str(rng.choice(['random', 'random', 'one', 'all', 'nomask']))
            fill = FILLS[dt][int(rng.integers(len(FILLS[dt])))]
        vars_.append({'name': 'v%d' % i, 'dims': vd, 'dtype': dt,
                      'kind': 'data', 'mask': mk, 'fill': fill,
                      'seed': int(rng.integers(1 << 30)),
                      'attrs': gen_attrs(rng)})
    spec = {'dims': dims, 'vars': vars_, 'attrs': gen_attrs(rng),
            'coords': []}
    if rng.random() < 0.5:
        spec['coords'] = [v['name'] for v in vars_ if v['kind'] != 'data']
    cvars = [v for v in vars_ if v['kind'] != 'data']
    if bounds_prob and cvars and rng.random() < bounds_prob and \
            'nv' not in dlen:
        # a CF bounds variable (c, nv) of one coordinate variable, declared
        # as a coordinate too: its second dimension is used by nothing else
        c = cvars[int(rng.integers(len(cvars)))]
        dims.append(['nv', 2, False])
        c['attrs'] = list(c['attrs']) + [['bounds', c['name'] + '_bounds']]
        vars_.append({'name': c['name'] + '_bounds',
                      'dims': [c['name'], 'nv'], 'dtype': 'f8',
                      'kind': 'data', 'mask': 'none', 'fill': None,
                      'seed': int(rng.integers(1 << 30)), 'attrs': []})
        spec['coords'] = [v['name'] for v in cvars] + [c['name'] + '_bounds']
    return spec


def var_values(vs, dlen):
    shape = tuple(dlen[d] for d in vs['dims'])
    if vs['kind'] != 'data':
        return coordvals(vs['seed'], shape[0], vs['kind'], vs['dtype'])
    if vs['dtype'] == 'S1':
        n = int(np.prod(shape)) if shape else 1
        rng = np.random.default_rng([int(vs['seed']), 80])
        letters = np.frombuffer(b'abcdefghijklmnopqrstuvwxyz', dtype='S1')
        return letters[rng.integers(0, 26, n)].reshape(shape)
    data = payload(vs['seed'], shape, vs['dtype'], vs.get('imax'))
    if vs['mask'] != 'none':
        m = maskfor(vs['seed'], shape, vs['mask'])
        return np.ma.masked_array(data, mask=m, fill_value=vs['fill'])
    return data


def build(spec, cls=None):
    """Build the in-memory file described by spec with the library's API."""
    import PseudoNetCDF as pnc
    cls = cls or pnc.PseudoNetCDFFile
    f = cls()
    dlen = {}
    for name, ln, unl in spec['dims']:
        d = f.createDimension(name, ln)
        if unl:
            d.setunlimited(True)
        dlen[name] = ln
    for k, v in spec['attrs']:
        setattr(f, k, attr_value(v))
    for vs in spec['vars']:
        vals = var_values(vs, dlen)
        kw = {}
        if vs['mask'] != 'none':
            kw['fill_value'] = vs['fill']
        tc = 'c' if vs['dtype'] == 'S1' else np.dtype(vs['dtype']).char
        if spec.get('sized_typecodes') and vs['dtype'] != 'S1':
            # the type given as a sized string ('f8', 'i2', ...), as numpy
            # users write it
            tc = vs['dtype']
        if spec.get('values_kw') and vs['mask'] != 'none' and \
                vs['dtype'] != 'S1':
            # created from a masked array (which carries numpy's own fill
            # value) with the missing code as an attribute
            var = f.createVariable(
                vs['name'], tc, tuple(vs['dims']),
                values=np.ma.masked_array(np.ma.getdata(vals),
                                          mask=np.ma.getmaskarray(vals)),
                missing_value=np.dtype(vs['dtype']).type(vs['fill']))
            for k, v in vs['attrs']:
                setattr(var, k, attr_value(v))
            continue
        var = f.createVariable(vs['name'], tc, tuple(vs['dims']), **kw)
        for k, v in vs['attrs']:
            setattr(var, k, attr_value(v))
        var[...] = vals
    if spec.get('coords'):
        f.setCoords(list(spec['coords']))
    return f


def expected_arrays(spec):
    """name -> (data, mask or None): what build() should contain"""
    dlen = {d[0]: d[1] for d in spec['dims']}
    out = {}
    for vs in spec['vars']:
        vals = var_values(vs, dlen)
        if isinstance(vals, np.ma.MaskedArray):
            out[vs['name']] = (np.ma.getdata(vals), np.ma.getmaskarray(vals))
        else:
            out[vs['name']] = (np.asarray(vals), None)
    return out
