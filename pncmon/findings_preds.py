"""Mechanism predicates for the entries of KNOWN_FINDINGS.json.

Each predicate receives the violation record (kind, msg, + the structured
fields the monitor attached) and the case spec, and says whether the violation
is an instance of the listed mechanism.  Predicates test the mechanism (which
operation, which input feature, how the failure looks), never seeds, case
numbers or random values."""
from .findings import pred


@pred('C01-unsigned-fill')
def c01_unsigned_fill(v, spec):
    # mask() / file arithmetic create masked outputs with the hard-coded fill
    # value -999, which an unsigned-integer variable cannot represent.
    return (v['kind'] in ('in-domain-raise:mask:TypeError',
                          'in-domain-raise:arith:TypeError') and
            v.get('meta', {}).get('unsigned') is True and
            'Cannot convert fill_value -999' in v.get('excmsg', ''))


@pred('C01-eval-scalar-masked')
def c01_eval_scalar(v, spec):
    # eval() whose expression reads a 0-d (scalar) variable: the expression
    # result is a numpy scalar, not a variable.  Masked operand: the result
    # has no _ncattrs and eval raises AttributeError.  Plain operand: the
    # result is stored with the dimension tuple of an unrelated variable
    # (the first name of the expression found in the file), so its shape ()
    # disagrees with its dimensions.
    if v.get('meta', {}).get('scalar_operand') is not True:
        return False
    if v['kind'] == 'in-domain-raise:eval:AttributeError':
        return '_ncattrs' in v.get('excmsg', '')
    if v['kind'] == 'malformed-result:eval':
        pr = v.get('problems') or []
        return bool(pr) and all('variable NEW(' in p and 'shape ()' in p
                                for p in pr)
    return False


@pred('C01-eval-dimension-guess')
def c01_eval_dimguess(v, spec):
    # eval()/pncexpr() whose value is a plain array (operands read with [...]
    # from a file on disk carry no dimension names) store it under the
    # dimension tuple of the FIRST name of the expression found in the file.
    # When the assignment target already exists that is the target itself,
    # not the operand, and the shapes need not agree.
    if v['kind'] not in ('malformed-result:eval',
                         'malformed-result:fn_pncexpr'):
        return False
    m = v.get('meta', {})
    if not (m.get('plain_array_value') and m.get('target_exists')):
        return False
    pr = v.get('problems') or []
    return bool(pr) and all(('variable NEW(' in p or 'variable XNEW(' in p)
                            and 'shape' in p for p in pr)


@pred('C01-arl-partial-level-variable')
def c01_arl_partial_level(v, spec):
    # arlpackedbit collects a level variable from the levels that carry it and
    # declares it on ('time', 'z', 'y', 'x') although it has fewer levels than
    # z when some level of the file lacks it.
    if v['kind'] != 'reader-malformed:arl':
        return False
    rs = ((spec or {}).get('file') or {}).get('reader') or {}
    ex = (rs.get('spec') or {}).get('layextra')
    if not ex:
        return False
    pr = v.get('problems') or []
    return bool(pr) and all(p.startswith("variable %s('time', 'z', 'y', 'x')"
                                         % ex['key']) and 'shape' in p
                            for p in pr)


@pred('C03-integer-truncation')
def c03_int_trunc(v, spec):
    # applyAlongDimensions stores the function's result in a variable of the
    # INPUT dtype: a fractional result (mean/std/var, fractional convolution
    # weights) of an integer variable is truncated toward zero.  The monitor
    # only emits this kind when the stored values equal trunc(reference) and
    # the masks agree, so any other wrong value is still reported.
    return v['kind'] == 'integer-truncation'


@pred('C10-apply-tstep-sdate')
def c10_apply_tstep(v, spec):
    # applyAlongDimensions over TSTEP transforms the TFLAG integers as if
    # they were data (mean/prod/... of YYYYJJJ and HHMMSS) and leaves
    # SDATE/STIME at the input's start: start attributes != first time flag.
    return (v['kind'] in ('incoherent-after:apply:sdate',
                          'incoherent-after:apply:sdate+tflag',
                          'incoherent-after:apply:tflag') and
            'TSTEP' in v.get('meta', {}).get('apply', {}))


@pred('C05-eval-stores-by-reference')
def c05_eval_alias(v, spec):
    # eval() stores the object the expression evaluates to without copying;
    # numpy.ma results (np.abs(x), x * 2, ...) share their MASK buffer with
    # the operand, so masking cells of the new variable masks the input's.
    if v['kind'] != 'result-aliases-input:eval':
        return False
    return all('mask changed' in d for d in v.get('diffs', ['x']))


@pred('C05-pncexpr-wraps-input')
def c05_pncexpr_wrap(v, spec):
    # pncexpr() returns a WrapPNC around its input: every variable the
    # expression does not assign IS the input file's variable object, so a
    # write through the result lands in the input.  Only changes to input
    # variables that the result exposes under the same name and that share
    # memory with them are this mechanism.
    if v['kind'] != 'result-aliases-input:fn_pncexpr':
        return False
    same = {a for a, b in v.get('shared', []) if a == b}
    # (the wrapper exposes the input's dimension objects as well)
    diffs = [d for d in v.get('diffs', ['?'])
             if not d.startswith('dimensions ')]
    names = {d.split(':')[0] for d in diffs}
    # the operand of the expression: numpy.ma hands its mask buffer on to
    # abs()/+/* results (the mechanism of C05-eval-stores-by-reference, same
    # code path), so masking the assigned variable masks the operand too
    expr = (v.get('meta') or {}).get('expr', '')
    rhs = expr.split('=', 1)[1] if '=' in expr else ''
    import re
    operands = set(re.findall(r'[A-Za-z_][A-Za-z_0-9]*', rhs))
    extra = names - same
    extra_ok = all(
        n in operands and all(': mask changed' in d for d in diffs
                              if d.split(':')[0] == n)
        for n in extra)
    return extra_ok and (bool(names) or all(
        d.startswith('dimensions ') for d in v.get('diffs', ['?'])))


@pred('C06-mask-values-integer')
def c06_mask_values_int(v, spec):
    # mask(values=x) delegates to numpy.ma.masked_values, which for INTEGER
    # arrays and a non-integral x fills previously masked cells with int(x),
    # finds nothing equal to x and returns mask=False: cells masked before
    # (in the input or by an earlier predicate of the same call) come back
    # unmasked holding int(x).
    if v['kind'] not in ('wrong-mask', 'wrong-mask:mask_vals'):
        return False
    kw = v.get('kw', {})
    if 'values' not in kw or float(kw['values']) == int(kw['values']):
        return False
    bad = v.get('badvars', [])
    import numpy as np
    return bool(bad) and all(np.dtype(dt).kind in 'iu' for _, dt, _ in bad)


@pred('C17-single-level-nan')
def c17_single_level(v, spec):
    # getinterpweights with ONE source level returns NaN weights (scipy's
    # extrapolating interp1d on a single point) even when the target equals
    # the source, where the identity [[1]] is the only sensible answer.
    pr = v.get('problems') or []
    return (v['kind'].startswith('law-broken:') and bool(pr) and
            all('single source level, target == source' in p or
                ('constant field became nan' in p) for p in pr))


@pred('C12-nonstandard-calendar')
def c12_nonstandard(v, spec):
    # getTimes' hand-written branch for noleap/365_day/all_leap/366_day
    # calendars (fractional-year arithmetic on a "year-like" 1970/1972)
    # mis-decodes nearly every value: wrong day, time of day dropped,
    # 'seconds' divided by a minutes denominator.
    return (v['kind'] == 'wrong-instant:cf:nonstandard' and
            spec.get('calendar') in ('noleap', '365_day', 'all_leap',
                                     '366_day'))


@pred('C12-date2num-hour-only-reference')
def c12_date2num_hour_only(v, spec):
    # date2num/time2idx hand the raw units string to netCDF4/cftime, whose
    # parser reads the hour-only reference spellings ('YYYY-MM-DD HH',
    # '... HH UTC', '... HHZ') as 00:00 while getTimes reads the hour:
    # the two directions disagree by the reference hour.
    return (v['kind'] in ('date2num-not-inverse', 'time2idx-not-identity')
            and spec.get('form') in (2, 5, 9))


@pred('C13-wind-read-single-step-hang')
def c13_wind_read_hang(v, spec):
    # wind.Read.__gettimestep scans forward for the NEXT time-header record
    # and ignores that RecordFile.next() reports end-of-file: on a valid file
    # with a single time step it spins for ever.
    return (v['kind'] == 'reader-does-not-terminate:wind:Read' and
            spec.get('fmt') == 'wind' and spec.get('nt') == 1)


@pred('C13-uamiv-read-emissions-one-layer')
def c13_uamiv_emis(v, spec):
    # uamiv.Read hard-codes one layer for files named EMISSIONS although the
    # header (and the memory-map reader) may say nz > 1.
    pr = v.get('problems') or []
    return (v['kind'] == 'readers-disagree:uamiv' and
            spec.get('name') == 'EMISSIONS' and spec.get('nz', 1) > 1 and
            bool(pr) and all(('LAY' in p) or ('shape' in p) for p in pr))


@pred('C20-no-headroom-saturation')
def c20_saturation(v, spec):
    # The byte range holds -127..+128 quantisation steps around the previous
    # RECONSTRUCTED value.  PAKOUT picks the exponent from the largest
    # neighbour difference of the ORIGINAL field; when that difference is
    # above ~99 % of 2**NEXP a negative step of that size plus the half-step
    # error carried along needs byte -1: it is clipped to 0 and the error
    # grows to between 1 and ~1.5 steps (no wrap-around; checksum and bytes
    # agree with the serial PAKOUT reference -- the algorithm itself has no
    # headroom).  Only the error bound is exceeded.
    pr = v.get('problems') or []
    return (v['kind'].startswith('pack-law-broken:') and len(pr) == 1 and
            pr[0].startswith('|unpack(pack(x)) - x|') and
            v.get('ratio') is not None and v['ratio'] < 1.6 and
            v.get('headroom') is not None and v['headroom'] > 0.99)


@pred('C20-index-header-length')
def c20_lenh(v, spec):
    # the reader takes LENH bytes AFTER the fixed 108-byte part of the index
    # header (the format counts those 108 bytes in LENH), so it needs
    # nx*ny >= LENH + 108; smaller grids make it read into the next record.
    return (v['kind'].startswith('arl-reader-raised') and
            v.get('nx', 99) * v.get('ny', 99) < v.get('lenh', 0) + 108)


@pred('C19-missing-code-over-7-digits')
def c19_long_code(v, spec):
    # data rows are written with '%.6e' (7 significant digits); a missing
    # code with more digits (e.g. -99999999 -> -1.000000e+08) no longer
    # equals the code declared in the header, so those cells come back
    # unmasked.
    if v['kind'] != 'icartt-roundtrip-differs':
        return False
    codes = {x['name']: x['code'] for x in spec.get('vars', [])}
    pr = v.get('problems') or []
    if not pr:
        return False
    for p in pr:
        if 'mask of missing data differs' not in p:
            return False
        name = p.split(':', 1)[1].split()[0]
        if len(str(abs(codes.get(name, 0)))) <= 7:
            return False
    return True


@pred('C13-uamiv-read-long-steps')
def c13_uamiv_step_count(v, spec):
    # uamiv.Read derives the number of time steps from the file header's
    # start/end stamps with hour-vs-HHMM heuristics (timediff with a unit
    # picked from time_step % 2) and without day arithmetic.  The count is
    # wrong (0, too few, or 100x too many) when the file's stamps run past
    # midnight or when the step is an even number of hours; the memory-map
    # reader counts records and is right.  For EMISSIONS files the
    # one-layer defect (C13-uamiv-read-emissions-one-layer) shows up in the
    # same comparison.
    from . import refcamx
    if not v['kind'] == 'readers-disagree:uamiv':
        return False
    # the two triggers, as the reader's arithmetic has them: (a) the FIRST
    # step ends on another date than it starts (its length is then taken as
    # 2400 - hour, and every count derived from it is wrong); (b) the step
    # is an even number of hours (a day is then counted as 2400) AND the
    # file's end stamp is on another date than its start.  A file with odd
    # steps whose first step stays within its day is counted correctly, also
    # when it ends at or after midnight.
    et = refcamx.end_times(spec)
    first_crosses = et[0][0] != spec['sdate']
    even = spec.get('dhour', 1) % 2 == 0
    if not (first_crosses or (even and et[-1][0] != spec['sdate'])):
        return False
    pr = v.get('problems') or []
    emis = spec.get('name') == 'EMISSIONS' and spec.get('nz', 1) > 1
    return (bool(pr) and any('dimension TSTEP' in p for p in pr) and
            all(('TSTEP' in p) or ('shape' in p) or ('TFLAG' in p) or
                (emis and 'dimension LAY' in p) for p in pr))


def _crosses_year(spec):
    from . import refcamx
    st = refcamx.step_times(spec)
    return st[0][0] // 1000 != st[-1][0] // 1000


@pred('C13-read-year-crossing')
def c13_year_crossing(v, spec):
    # the record-based readers count time steps from YYJJJ/hour differences
    # between the first and last stamp without calendar arithmetic: a file
    # that runs across 31 December gets a wrong step count (temperature.Read
    # ~15000 steps, uamiv.Read too few) while the memory-map reader counts
    # records.
    pr = v.get('problems') or []
    if v['kind'].startswith('reader-does-not-terminate:') and \
            v.get('reader') == 'Read' and _crosses_year(spec):
        # the same wrong count (tens of thousands of steps) makes the record
        # reader walk the file that many times: the step budget runs out
        return True
    # (for EMISSIONS files the one-layer defect,
    # C13-uamiv-read-emissions-one-layer, shows up in the same comparison)
    emis = spec.get('fmt') == 'uamiv' and spec.get('name') == 'EMISSIONS' \
        and spec.get('nz', 1) > 1
    return (v['kind'].startswith('readers-disagree:') and _crosses_year(spec)
            and bool(pr) and any('dimension TSTEP' in p for p in pr) and
            all(('TSTEP' in p) or ('shape' in p) or ('TFLAG' in p) or
                (emis and 'dimension LAY' in p) for p in pr))


@pred('C20-file-no-headroom-saturation')
def c20_file_saturation(v, spec):
    # file-level face of C20-no-headroom-saturation: the reference PAKOUT
    # encoder produced a field whose largest neighbour difference is above
    # 99 % of 2**NEXP; reading it back is off by 1..1.6 steps from the
    # ORIGINAL field (and identical to the reference decoder's values).
    pr = v.get('problems') or []
    return (v['kind'] == 'arl-file-law-broken' and bool(pr) and
            all('read value off by' in p for p in pr) and
            all(r < 1.6 for r in v.get('ratios', [9])) and
            all(h > 0.99 for h in v.get('headrooms', [0])))


@pred('C13-one3d-default-shape')
def c13_one3d_default_shape(v, spec):
    # called without rows/cols the one3d-family memory-mapped readers present
    # the cells as one ROW of N columns (their documented default) while the
    # record readers (and the temperature/height readers of both families)
    # present N rows of one column; the data agree up to length-1 axes
    if not v['kind'].startswith('readers-disagree:'):
        return False
    if v.get('fmt') not in ('humidity', 'vertical_diffusivity', 'one3d'):
        return False
    if not (spec or {}).get('noshape'):
        return False
    pr = v.get('problems') or []
    return bool(pr) and all(p.startswith('dimension COL:') or
                            p.startswith('dimension ROW:') for p in pr)


@pred('C14-cloudrain-cut-reads-as-3-variable')
def c14_cloudrain_ambiguous(v, spec):
    # The cloud/rain format carries no variable count: the reader tells the
    # contemporary 5-variable layout from the old 3-variable one by the file
    # size alone.  A 5-variable file cut where the remaining data are a whole
    # number of 3-variable steps (and not of 5-variable steps) is opened as
    # a 3-variable file with other step boundaries.
    if not v['kind'].startswith('silent-misread:cloud_rain'):
        return False
    sp = spec or {}
    if sp.get('fmt') != 'cloud_rain' or sp.get('nvars', 5) != 5:
        return False
    try:
        per = sp['nz'] * (sp['nx'] * sp['ny'] + 2) * 4
        ts5, ts3 = 5 * per + 16, 3 * per + 16
        hdr = int(v['size']) - sp['nt'] * ts5
        left = int(v['cut']) - hdr
    except Exception:
        return False
    return left > 0 and left % ts3 == 0 and left % ts5 != 0


@pred('C14-bpch2-partial-last-step')
def c14_bpch2_partial(v, spec):
    # The block-walking reader (bpch2) indexes whatever complete data blocks
    # it finds: when a file is cut inside a later time step it exposes that
    # unfinished step through the blocks that are complete (time dimension
    # and tau0 one longer than the complete steps; tracers whose block is
    # missing have one step fewer).  All values it returns are genuine.
    # The public bpch class falls back to this reader whenever the
    # memory-mapped reader raises, which it does for cuts inside a block.
    # (Only inside the FIRST time step: with a complete step in the prefix
    # the memory-mapped reader itself succeeds and exposes complete steps.)
    return ((v['kind'].startswith('silent-misread:bpch2:') or
             (v['kind'].startswith('silent-misread:bpch:') and
              v.get('complete_steps') == 0)) and
            v.get('fmt') in ('bpch2', 'bpch') and
            ('steps exposed' in v['msg'] or 'complete ones' in v['msg'])
            and v.get('outcome') == 'returned')
