"""Classification of violations against KNOWN_FINDINGS.json.

The JSON file is the authority on WHICH findings are known (and is never
written at run time); this module holds, per finding id, the pure mechanism
predicate over (violation record, case spec).  A predicate must describe the
mechanism of the defect (which inputs trigger it and how the wrong behaviour
looks), never a case hash or random values, so that a different violation of
the same property is still reported.
"""
import json
import os

from . import harness

PRED = {}


def pred(fid):
    def deco(fn):
        PRED[fid] = fn
        return fn
    return deco


def load_known():
    path = os.path.join(harness.VERIF, 'KNOWN_FINDINGS.json')
    try:
        with open(path) as f:
            doc = json.load(f)
    except FileNotFoundError:
        return {}
    out = {}
    for e in doc.get('known', []):
        out[e['id']] = e
    return out


def what(known, fid):
    e = known.get(fid)
    return e['what'] if e else fid


def classify(prop, v, spec, known):
    for fid, e in known.items():
        if e.get('property') != prop:
            continue
        fn = PRED.get(fid)
        if fn is None:
            continue
        try:
            if fn(v, spec):
                return fid
        except Exception:
            continue
    return None


# ---------------------------------------------------------------------------
# predicates are appended below as findings are confirmed (see DESIGN 2.2)
from . import findings_preds  # noqa: E402,F401
