#!/venv/bin/python
"""debug helper: summarise unlisted violations of the last run of a property"""
import json, sys, glob, collections
p = sys.argv[1]
e = json.load(open('/verif/evidence/%s.json' % p))
c = e['coverage']
print('verdict', c['verdict'], c['verdict_reasons'][:3])
print('evals', c['evaluations'], 'distinct', c['distinct_nontrivial'], 'wall', e['wall_s'])
print('hooks', c['hook_evaluations'])
print('kinds', c['unlisted_violation_kinds'])
print('known', {k: v['count'] for k, v in c['known_findings_fired'].items()})
print('notes', {k: (v if not isinstance(v, str) else v[:1500]) for k, v in c['notes'].items()})
if len(sys.argv) > 2:
    print('facets', c['facets'])
