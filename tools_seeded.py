#!/venv/bin/python
"""Evaluate a seeded change (mutant) against the checks.

usage: tools_seeded.py <dir with patch.diff [demo.py]> [--props C01,C05]
                       [--tier quick] [--seeds 0,1] [--skip-tests]

A scratch git worktree of /repo's HEAD is created under /tmp, the patch is
applied THERE (never in /repo), the repository's own test-suite and the demo
are run with and without the patch, and the named checks are run with
VERIF_REPO pointing at the scratch tree.  The worktree is removed afterwards.
Prints a JSON summary."""
import argparse
import json
import os
import shutil
import subprocess
import sys
import tempfile
import xml.etree.ElementTree as ET

VERIF = os.path.dirname(os.path.abspath(__file__))
ALL = ['C%02d' % i for i in range(1, 21)]


def sh(cmd, cwd=None, env=None, timeout=3600):
    p = subprocess.run(cmd, shell=True, cwd=cwd, env=env, timeout=timeout,
                       capture_output=True, text=True)
    return p.returncode, p.stdout + p.stderr


def run_tests(wt):
    junit = os.path.join(wt, '_junit.xml')
    env = dict(os.environ, PYTHONPATH=os.path.join(wt, 'src'))
    env.pop('PSEUDONETCDF_VERIF', None)
    sh('/venv/bin/python -m pytest -q -p no:cacheprovider --timeout=900 '
       '--continue-on-collection-errors --junitxml=%s' % junit, cwd=wt,
       env=env)
    passed = set()
    try:
        for tc in ET.parse(junit).iter('testcase'):
            name = tc.get('classname') + '::' + tc.get('name')
            if not any(ch.tag in ('failure', 'error', 'skipped')
                       for ch in tc):
                passed.add(name)
    except Exception:
        pass
    if os.path.exists(junit):
        os.remove(junit)
    return passed


def main():
    ap = argparse.ArgumentParser()
    ap.add_argument('dir')
    ap.add_argument('--props', default=','.join(ALL))
    ap.add_argument('--tier', default='quick')
    ap.add_argument('--seeds', default='0')
    ap.add_argument('--skip-tests', action='store_true')
    a = ap.parse_args()
    d = os.path.abspath(a.dir)
    patch = os.path.join(d, 'patch.diff')
    demo = os.path.join(d, 'demo.py')
    wt = tempfile.mkdtemp(prefix='pnc-seeded-')
    os.rmdir(wt)
    out = {'dir': d, 'checks': {}}
    rc, o = sh('git -C /repo worktree add -q --detach %s HEAD' % wt)
    if rc:
        print(o)
        return 2
    try:
        env = dict(os.environ, PYTHONPATH=os.path.join(wt, 'src'))
        if not a.skip_tests:
            base = run_tests(wt)
        if os.path.exists(demo):
            rc0, o0 = sh('/venv/bin/python %s' % demo, cwd=wt, env=env,
                         timeout=600)
            out['demo_without_patch'] = rc0
        rc, o = sh('git -C %s apply %s' % (wt, patch))
        if rc:
            # the repository moved on since the change was recorded (repairs
            # next to its context lines): merge it in
            rc, o2 = sh('git -C %s apply --3way %s' % (wt, patch))
            out['applied_with_3way'] = rc == 0
            o += o2
        if rc:
            out['apply_failed'] = o[-500:]
            print(json.dumps(out, indent=1))
            return 2
        if not a.skip_tests:
            mut = run_tests(wt)
            out['tests_pass_base'] = len(base)
            out['tests_pass_mutant'] = len(mut)
            out['tests_newly_failing'] = sorted(base - mut)
        if os.path.exists(demo):
            rc1, o1 = sh('/venv/bin/python %s' % demo, cwd=wt, env=env,
                         timeout=600)
            out['demo_with_patch'] = rc1
            out['demo_output_with_patch'] = o1[-600:]
        scratch = tempfile.mkdtemp(prefix='pnc-seeded-out-')
        cenv = dict(os.environ, VERIF_REPO=wt,
                    VERIF_EVIDENCE_DIR=os.path.join(scratch, 'evidence'),
                    VERIF_REPLAY_DIR=os.path.join(scratch, 'replays'))
        for p in a.props.split(','):
            for seed in a.seeds.split(','):
                cenv['VERIF_SEED'] = seed
                rc, o = sh('./check %s --tier %s' % (p, a.tier),
                           cwd=os.environ.get('VERIF_CHECK_DIR', VERIF),
                           env=cenv, timeout=7200)
                lines = [x for x in o.splitlines()
                         if x.startswith(('VIOLATION', 'INCONCLUSIVE'))
                         or x.startswith('  kind=')]
                out['checks'].setdefault(p, {})[seed] = {
                    'rc': rc, 'lines': [x[:400] for x in lines[:8]]}
        det = sorted(p for p, r in out['checks'].items()
                     if any(v['rc'] == 1 for v in r.values()))
        out['detected_by'] = det
    finally:
        sh('git -C /repo worktree remove --force %s' % wt)
        shutil.rmtree(wt, True)
        try:
            shutil.rmtree(scratch, True)
        except NameError:
            pass
    print(json.dumps(out, indent=1))
    return 0


if __name__ == '__main__':
    sys.exit(main())
