#!/venv/bin/python
"""Regenerates MANIFEST.json from the property modules that exist."""
import importlib
import json
import os
import sys

here = os.path.dirname(os.path.abspath(__file__))
sys.path.insert(0, here)
sys.path.insert(0, os.path.join(here, '.deps'))

checks = []
na = []
served = []
for i in range(1, 21):
    pid = 'C%02d' % i
    path = os.path.join(here, 'pncmon', 'props', pid.lower() + '.py')
    if not os.path.exists(path):
        na.append({'property_id': pid,
                   'reason': 'check not built yet (in progress); see '
                             'DESIGN.md section 4 for the planned monitor'})
        continue
    m = importlib.import_module('pncmon.props.' + pid.lower())
    served.append(pid)
    checks.append({
        'property_id': pid,
        'quick_cmd': './check %s --tier quick' % pid,
        'thorough_cmd': './check %s --tier thorough' % pid,
        'evidence_file': 'evidence/%s.json' % pid,
        'replay_cmd_template': './check %s --replay {path}' % pid,
        'engine': 'pncmon',
        'level_claimed': {
            'category': m.LEVEL,
            'text': getattr(m, 'LEVEL_TEXT', None) or (
                'Runtime monitoring: the real library code is run on '
                'generated workloads and an independent oracle judges every '
                'observed execution; held on the executions listed in the '
                'evidence file, nothing more. ' + m.RULE),
            'design_ref': 'DESIGN.md section 4, ' + pid,
        },
        'level_note': '; '.join(m.ASSUMPTIONS),
        'technique': getattr(m, 'TECHNIQUE', 'runtime monitoring: '
                             'reference-model oracle over call/return events '
                             'of generated workloads'),
    })

manifest = {
    'version': 1,
    'setup_cmd': './setup.sh',
    'hooks': {
        'guard': 'PSEUDONETCDF_VERIF',
        'enable': 'no source hooks: ./check exports PSEUDONETCDF_VERIF=1 and '
                  'installs its wrappers/tracers on the real classes and '
                  'functions from the harness at run time (the editable '
                  'install makes /repo/src the imported code)',
        'baseline_off_cmd': 'cd /repo && env -u PSEUDONETCDF_VERIF '
                            '/venv/bin/python -m pytest -ra -q -p '
                            'no:cacheprovider --timeout=900 '
                            '--continue-on-collection-errors',
        'source_commits': [],
        'add_only': True,
    },
    'engines': [{
        'name': 'pncmon', 'path': 'pncmon',
        'serves_properties': served,
        'kind_free_text': 'runtime monitoring harness: seeded workload '
                          'generators, boundary event recorders, independent '
                          'reference oracles, step budgets, sharded workers',
    }],
    'checks': checks,
    'not_applicable': na,
    'notes': 'Known findings are listed in KNOWN_FINDINGS.json (mechanism '
             'predicates in pncmon/findings_preds.py). Exit codes: 0 held, '
             '1 violation (VIOLATION line + replay file), 2 inconclusive.',
}
with open(os.path.join(here, 'MANIFEST.json'), 'w') as f:
    json.dump(manifest, f, indent=1)
    f.write('\n')
print('MANIFEST.json: %d checks, %d not yet applicable' % (len(checks),
                                                          len(na)))
